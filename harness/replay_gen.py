"""Generates the native replay driver (C++ against the REAL library built from /repo's working tree).

The driver is reflective: objects are created by class name and populated by member path from the
counterexample inputs of a failed obligation, then pushed through the real codec on an in-memory
AbstractFile.  It prints one JSON object with the observed quantities; the Python side evaluates the
failed clause on them.
"""
import os, sys, json, subprocess, hashlib, shutil
sys.path.insert(0, os.path.dirname(os.path.dirname(os.path.abspath(__file__))))
from run import core, classinfo

PRELUDE = r'''
#include <Vector/BLF.h>
#include <cstdio>
#include <cstring>
#include <string>
#include <vector>
#include <map>
#include <fstream>
#include <iostream>
#include <sstream>
#include <cstdlib>
#include <type_traits>
#include <new>
using namespace Vector::BLF;

struct MemFile : AbstractFile {
    std::vector<char> buf; std::streamsize g = 0; std::streamsize gc = 0; std::streamsize fsize = -1; int state = 0;
    std::streamsize gcount() const override { return gc; }
    void read(char * s, std::streamsize n) override {
        std::streamsize fs = fsize < 0 ? (std::streamsize)buf.size() : fsize;
        if (n + g > fs) { n = fs - g; state = 6; } else state = 0;
        if (n < 0) n = 0;
        if (n) memcpy(s, buf.data() + g, n);
        g += n; gc = n;
    }
    std::streampos tellg() override { return state & 5 ? std::streampos(-1) : std::streampos(g); }
    void seekg(std::streamoff off, const std::ios_base::seekdir) override {
        std::streamsize fs = fsize < 0 ? (std::streamsize)buf.size() : fsize;
        g = std::min<std::streamsize>(g + off, fs);
    }
    void write(const char * s, std::streamsize n) override { buf.insert(buf.end(), s, s + n); }
    std::streampos tellp() override { return std::streampos((std::streamsize)buf.size()); }
    bool good() const override { return state == 0; }
    bool eof() const override { return state & 2; }
};

template <typename T> static void setv(T & f, unsigned long long v) { f = static_cast<T>(v); }
static void setv(double & f, unsigned long long v) { memcpy(&f, &v, 8); }
template <typename T> static unsigned long long getv(const T & f) { return static_cast<unsigned long long>(f); }
static unsigned long long getv(const double & f) { unsigned long long v; memcpy(&v, &f, 8); return v; }
template <typename V> static void fillv(V & v, size_t n, unsigned seed) {
    v.resize(n);
    unsigned char * p = reinterpret_cast<unsigned char *>(const_cast<typename V::value_type *>(v.data()));
    for (size_t i = 0; i < n * sizeof(typename V::value_type); i++) p[i] = (unsigned char)(seed + 131 * i + (i >> 8));
}
template <typename A> static void filla(A & a, unsigned seed) {
    unsigned char * p = reinterpret_cast<unsigned char *>(a.data());
    for (size_t i = 0; i < sizeof(a); i++) p[i] = (unsigned char)(seed + 17 * i);
}
'''

def cpp_path(cpath):
    parts = [p for p in cpath.split('.') if not p.startswith('b_')]
    return '.'.join(parts)


def generate(info, out):
    src = PRELUDE
    classes = [c for c in info.codec_classes() if info.is_object(c) and info.classes[c]['default_constructible']]
    src += 'static ObjectHeaderBase * make(const std::string & c) {\n'
    for c in classes:
        src += '    if (c == "%s") return new %s;\n' % (c, c)
    src += '    return nullptr;\n}\n'
    src += 'static ObjectHeaderBase * make_at(const std::string & c, unsigned char fill) {\n'
    for c in classes:
        src += '    if (c == "%s") { void * b = ::operator new(sizeof(%s)); memset(b, fill, sizeof(%s)); return new (b) %s; }\n' % (c, c, c, c)
    src += '    return nullptr;\n}\n'
    # per class: set / get / size / fill
    for c in classes:
        leaves = info.leaves(c)
        src += 'static bool op_%s(%s * x, const std::string & op, const std::string & p, unsigned long long v, unsigned long long * out) {\n' % (c, c)
        for l in leaves:
            cp = cpp_path(l['path']); key = l['path']
            if l['kind'] == 'scalar':
                src += '    if (p == "%s") { if (op == "set") setv(x->%s, v); else *out = getv(x->%s); return true; }\n' % (key, cp, cp)
            elif l['kind'] == 'vec':
                src += '    if (p == "%s") { if (op == "size") fillv(x->%s, (size_t)v, (unsigned)v); else *out = x->%s.size(); return true; }\n' % (key, cp, cp)
            elif l['kind'] == 'array':
                src += '    if (p == "%s") { if (op == "fill") filla(x->%s, (unsigned)v); else if (op == "content") { unsigned long long h = 1469598103934665603ull; const unsigned char * q = reinterpret_cast<const unsigned char *>(x->%s.data()); for (size_t i = 0; i < sizeof(x->%s); i++) h = (h ^ q[i]) * 1099511628211ull; *out = h; } else *out = x->%s.size(); return true; }\n' % (key, cp, cp, cp, cp)
        src += '    return false;\n}\n'
    src += 'static bool op(ObjectHeaderBase * o, const std::string & c, const std::string & oper, const std::string & p, unsigned long long v, unsigned long long * out) {\n'
    for c in classes:
        src += '    if (c == "%s") return op_%s(static_cast<%s *>(o), oper, p, v, out);\n' % (c, c, c)
    src += '    return false;\n}\n'
    src += r'''
static void jnum(std::ostringstream & o, const char * k, long long v, bool & first) { if (!first) o << ","; first = false; o << "\"" << k << "\":" << v; }

/* commands (one per line on stdin):
 *   class <Name> | set <path> <u64> | size <path> <n> | fill <path> <seed> | get <path> | write | roundtrip | image <hex> | readwrite */
int main(int argc, char ** argv) {
    std::string cls; ObjectHeaderBase * obj = nullptr;
    std::string line; std::ostringstream js; bool first = true;
    js << "{";
    std::vector<std::string> gets;
    MemFile f;
    while (std::getline(std::cin, line)) {
        std::istringstream is(line); std::string cmd; is >> cmd;
        if (cmd == "class") { is >> cls; obj = make(cls); if (!obj) { printf("{\"error\":\"unknown class\"}\n"); return 3; } }
        else if (cmd == "set" || cmd == "size" || cmd == "fill") {
            std::string p; unsigned long long v = 0; is >> p >> v; unsigned long long o = 0;
            if (!op(obj, cls, cmd, p, v, &o)) { printf("{\"error\":\"unknown member %s\"}\n", p.c_str()); return 3; }
        } else if (cmd == "get") { std::string p; is >> p; gets.push_back(p); }
        else if (cmd == "poisonctor") {
            /* construct the class in two differently poisoned memory backgrounds and report one member of both */
            std::string p; is >> p;
            ObjectHeaderBase * a = make_at(cls, 0xAA); ObjectHeaderBase * b = make_at(cls, 0x55);
            unsigned long long va = 0, vb = 0;
            /* "content": the value of a scalar, a hash over the bytes of an array member */
            op(a, cls, "content", p, 0, &va); op(b, cls, "content", p, 0, &vb);
            jnum(js, "a", (long long)va, first); jnum(js, "b", (long long)vb, first);
            jnum(js, "a_type", (long long)a->objectType, first);
        }
        else if (cmd == "write") {
            obj->write(f);
            jnum(js, "emitted", (long long)f.buf.size(), first);
            jnum(js, "objectSize", obj->objectSize, first);
            jnum(js, "headerSize", obj->headerSize, first);
            jnum(js, "calcObjectSize", obj->calculateObjectSize(), first);
            jnum(js, "calcHeaderSize", obj->calculateHeaderSize(), first);
            jnum(js, "objectType", (long long)obj->objectType, first);
            long long tail = (long long)f.buf.size() - (long long)obj->objectSize; bool z = true;
            for (long long i = 0; i < tail && i < 64; i++) if (f.buf[f.buf.size() - 1 - i] != 0) z = false;
            jnum(js, "tail_zero", z ? 1 : 0, first);
            if (f.buf.size() >= 16) {
                unsigned short hs; unsigned int os; memcpy(&hs, &f.buf[4], 2); memcpy(&os, &f.buf[8], 4);
                jnum(js, "wire_headerSize", hs, first); jnum(js, "wire_objectSize", os, first);
            }
        } else if (cmd == "hexwrite") {
            /* translation validation: emit the bytes of write() */
            MemFile g2; obj->write(g2);
            printf("W %zu ", g2.buf.size()); for (unsigned char c : g2.buf) printf("%02x", c); printf(" os=%u hs=%u calc=%u\n", obj->objectSize, obj->headerSize, obj->calculateObjectSize());
        } else if (cmd == "image") {
            /* translation validation: decode the given image with read(), report, re-encode */
            std::string hex; is >> hex; MemFile in;
            for (size_t i = 0; i + 1 < hex.size(); i += 2) in.buf.push_back((char)strtol(hex.substr(i, 2).c_str(), nullptr, 16));
            ObjectHeaderBase * y = make(cls); int exc = 0;
            try { y->read(in); } catch (Vector::BLF::Exception &) { exc = 1; } catch (std::exception &) { exc = 2; }
            printf("R g=%ld good=%d exc=%d os=%u hs=%u type=%u\n", (long)in.g, in.good() ? 1 : 0, exc, y->objectSize, y->headerSize, (unsigned)y->objectType);
            if (!exc) { MemFile out; y->write(out); printf("W %zu ", out.buf.size()); for (unsigned char c : out.buf) printf("%02x", c); printf(" os=%u hs=%u calc=%u\n", y->objectSize, y->headerSize, y->calculateObjectSize()); }
            delete y;
        } else if (cmd == "roundtrip") {
            /* write obj, read it back into a fresh object of the class the factory picks */
            obj->write(f);
            ObjectHeaderBase * y = make(cls);
            y->read(f);
            jnum(js, "emitted", (long long)f.buf.size(), first);
            jnum(js, "consumed", (long long)f.g, first);
            jnum(js, "good", f.good() ? 1 : 0, first);
            MemFile f2; y->write(f2);
            jnum(js, "rewrite_equal", (f2.buf == f.buf) ? 1 : 0, first);
            for (auto & p : gets) { unsigned long long o = 0; op(y, cls, "get", p, 0, &o); jnum(js, ("y:" + p).c_str(), (long long)o, first); }
            delete y;
        }
    }
    for (auto & p : gets) { unsigned long long o = 0; op(obj, cls, "get", p, 0, &o); jnum(js, ("get:" + p).c_str(), (long long)o, first); }
    js << "}";
    printf("%s\n", js.str().c_str());
    delete obj;
    return 0;
}
'''
    open(out, 'w').write(src)


def ensure_native(sanitize=True):
    """build the real library from /repo's working tree (cached by source hash)"""
    h = core.src_hash()
    d = os.path.join(core.BUILD, 'native')
    stamp = os.path.join(d, '.hash')
    if os.path.exists(stamp) and open(stamp).read() == h:
        return d
    shutil.rmtree(d, ignore_errors=True)
    flags = '-O1 -w -g' + (' -fsanitize=address,undefined -fno-omit-frame-pointer' if sanitize else '')
    log = os.path.join(core.BUILD, 'native.log')
    with open(log, 'w') as lf:
        rc = subprocess.call(['cmake', '-G', 'Ninja', '-S', core.REPO, '-B', d, '-DCMAKE_BUILD_TYPE=Release',
                              '-DOPTION_RUN_DOXYGEN=OFF', '-DOPTION_BUILD_TESTS=OFF', '-DCMAKE_CXX_FLAGS=' + flags,
                              '-DCMAKE_SHARED_LINKER_FLAGS=' + ('-fsanitize=address,undefined' if sanitize else '')],
                             stdout=lf, stderr=lf)
        if rc == 0:
            rc = subprocess.call(['cmake', '--build', d, '-j%d' % core.NCPU], stdout=lf, stderr=lf)
    if rc != 0:
        raise core.Inconclusive('native build of the library failed, see %s' % log)
    open(stamp, 'w').write(h)
    return d


def ensure_driver(info):
    d = ensure_native()
    rd = os.path.join(core.BUILD, 'replay')
    os.makedirs(rd, exist_ok=True)
    cpp = os.path.join(rd, 'replay_codec.cpp')
    exe = os.path.join(rd, 'replay_codec')
    h = core.src_hash() + hashlib.sha256(open(__file__, 'rb').read()).hexdigest()
    stamp = os.path.join(rd, '.hash')
    if os.path.exists(exe) and os.path.exists(stamp) and open(stamp).read() == h:
        return exe, d
    generate(info, cpp)
    libdir = os.path.join(d, 'src', 'Vector', 'BLF')
    cmd = ['g++', '-std=c++11', '-O0', '-g', '-w', '-fsanitize=address,undefined', '-I', os.path.join(core.REPO, 'src'),
           '-I', os.path.join(d, 'src'), cpp, '-o', exe, '-L', libdir, '-lVector_BLF', '-Wl,-rpath,' + libdir, '-lpthread']
    p = subprocess.run(cmd, stdout=subprocess.PIPE, stderr=subprocess.STDOUT, text=True)
    if p.returncode != 0:
        raise core.Inconclusive('replay driver does not compile: ' + p.stdout[-2000:])
    open(stamp, 'w').write(h)
    return exe, d


def run_driver(info, script, timeout=60):
    exe, d = ensure_driver(info)
    env = dict(os.environ, ASAN_OPTIONS='detect_leaks=0:abort_on_error=0:allocator_may_return_null=1',
               UBSAN_OPTIONS='print_stacktrace=1:halt_on_error=1')
    try:
        p = subprocess.run([exe], input=script, stdout=subprocess.PIPE, stderr=subprocess.PIPE, text=True, timeout=timeout, env=env)
    except subprocess.TimeoutExpired:
        return dict(timeout=True), ''
    out = p.stdout.strip().splitlines()
    res = {}
    if out:
        try:
            res = json.loads(out[-1])
        except ValueError:
            res = {'raw': p.stdout[-500:]}
    res['exit'] = p.returncode
    san = ''
    if 'AddressSanitizer' in p.stderr or 'runtime error' in p.stderr:
        san = '\n'.join(p.stderr.splitlines()[:12])
        res['sanitizer'] = san
    return res, p.stderr


def parse_val(v):
    v = v.strip()
    if v in ('TRUE',): return 1
    if v in ('FALSE',): return 0
    v = v.rstrip('ulUL')
    try:
        if v.startswith('-'): return int(v) & 0xffffffffffffffff
        return int(v, 0)
    except ValueError:
        try:
            import struct
            return struct.unpack('<Q', struct.pack('<d', float(v)))[0]
        except Exception:
            return 0


def script_from_inputs(info, cn, vals):
    """trace inputs (in_<path with __>) -> driver commands"""
    lines = ['class %s' % cn]
    leaves = info.leaves(cn)
    by = {}
    for l in leaves:
        by['in_' + classinfo.cid(l['path'])] = l
        if l['kind'] == 'vec': by['in_' + classinfo.cid(l['path']) + '__size'] = l
    for k, v in vals.items():
        l = by.get(k)
        if l is None: continue
        if l['kind'] == 'vec':
            lines.append('size %s %d' % (l['path'], min(parse_val(v), 1 << 22)))
        elif l['kind'] == 'scalar':
            lines.append('set %s %d' % (l['path'], parse_val(v)))
    return lines


if __name__ == '__main__':
    meta = core.ensure_extracted()
    info = classinfo.Info(meta)
    exe, d = ensure_driver(info)
    print(exe)
