"""Translation validation of the two stage classes: the C text cxx2c extracts from UncompressedFile.cpp and
ObjectQueue.cpp (the text CBMC verifies in C06/C11/C12/C15/C16) is compiled NATIVELY with the executable models of
std::list / shared_ptr / std::queue (cxx2c/rt) and driven by the same operation scripts as the REAL classes of the
library (ASan+UBSan build of the working tree); after every operation both print the observable state (positions,
declared size, state bits, gcount, the bytes a read delivered / the identity of the object a read returned) and the
two transcripts must agree line by line.

The scripts are sequential (one thread): the generator tracks tellg / tellp / declared size / thresholds with the
plain arithmetic of the stream contract and only emits operations whose wait predicate is true, plus everything
after abort().  A script whose operation would block makes the extracted side stop with a message and the real side
hit the timeout: reported as a generator defect (exit 2), not as a disagreement.

A disagreement is an extractor / model defect -> exit 2 in the checks that use the stage classes' text.
"""
import os, sys, json, subprocess, hashlib, random
sys.path.insert(0, os.path.dirname(os.path.dirname(os.path.abspath(__file__))))
from run import core
from harness import replay_gen

NSCRIPTS = 120
NOPS = 160
BIG = 1 << 40

C_DRIVER = r'''
#include <stdio.h>
#include <stdlib.h>
#include <string.h>
#include "blf.h"
#include "AbstractFile.c"
#include "ObjectHeaderBase.c"
/* make_shared<LogContainer>() yields ONE owner: the executable shared_ptr model (vb_models.h) counts from the ghost
 * field vb_refcnt, which the extracted constructor does not know about */
#define LogContainer_new LogContainer_new__raw
#include "LogContainer.c"
#undef LogContainer_new
struct LogContainer *LogContainer_new(void) { struct LogContainer *p = LogContainer_new__raw(); if (p) p->vb_refcnt = 1; return p; }
#include "UncompressedFile.c"
#include "ObjectQueue.c"
#include "vb_native.c"
/* virtual calls that the driver never reaches */
static void never(const char *w) { fprintf(stderr, "tv_stage: unexpected virtual call %s\n", w); abort(); }
void AbstractFile_v_read(struct AbstractFile *f, char *s, int64_t n) { never("read"); }
void AbstractFile_v_write(struct AbstractFile *f, char *s, int64_t n) { never("write"); }
void AbstractFile_v_seekg(struct AbstractFile *f, int64_t o, int w) { never("seekg"); }
int64_t AbstractFile_v_tellg(struct AbstractFile *f) { never("tellg"); return 0; }
int64_t AbstractFile_v_tellp(struct AbstractFile *f) { never("tellp"); return 0; }
int64_t AbstractFile_v_gcount(struct AbstractFile *f) { never("gcount"); return 0; }
_Bool AbstractFile_v_good(struct AbstractFile *f) { never("good"); return 0; }
_Bool AbstractFile_v_eof(struct AbstractFile *f) { never("eof"); return 0; }
void AbstractFile_v_skipp(struct AbstractFile *f, int64_t n) { never("skipp"); }
unsigned long vb_zlib_compressBound(unsigned long n) { never("zlib"); return 0; }
int vb_zlib_uncompress(uint8_t *d, unsigned long *dl, const uint8_t *s, unsigned long sl) { never("zlib"); return 0; }
int vb_zlib_compress2(uint8_t *d, unsigned long *dl, const uint8_t *s, unsigned long sl, int level) { never("zlib"); return 0; }
uint32_t ObjectHeaderBase_v_calculateObjectSize(struct ObjectHeaderBase *o) { never("calc"); return 0; }
void ObjectHeaderBase_v_read(struct ObjectHeaderBase *o, struct AbstractFile *f) { never("oread"); }
void ObjectHeaderBase_v_write(struct ObjectHeaderBase *o, struct AbstractFile *f) { never("owrite"); }
static long ndeleted;
void ObjectHeaderBase_v_delete(struct ObjectHeaderBase *o) { ndeleted++; free(o); }
static unsigned char pat(unsigned seed, long i) { return (unsigned char)(seed * 31u + (unsigned)i * 7u + (unsigned)(i >> 8)); }
static void ustate(struct UncompressedFile *u)
{
    printf(" | g=%lld p=%lld fs=%lld good=%d eof=%d gc=%lld dlcs=%u\n", (long long)UncompressedFile_tellg(u), (long long)UncompressedFile_tellp(u),
           (long long)UncompressedFile_fileSize(u), (int)UncompressedFile_good(u), (int)UncompressedFile_eof(u), (long long)UncompressedFile_gcount(u),
           UncompressedFile_defaultLogContainerSize(u));
}
static void qstate(struct ObjectQueue *q)
{
    printf(" | g=%u p=%u good=%d eof=%d\n", ObjectQueue_tellg(q), ObjectQueue_tellp(q), (int)ObjectQueue_good(q), (int)ObjectQueue_eof(q));
}
int main(void)
{
    char op[32]; long long a, b;
    struct UncompressedFile *u = NULL; struct ObjectQueue *q = NULL;
    static char buf[1 << 20];
    setvbuf(stdout, NULL, _IOLBF, 0);   /* LeakSanitizer ends the process without flushing stdio */
    while (scanf("%31s %lld %lld", op, &a, &b) == 3) {
        printf("%s %lld %lld", op, a, b);
        if (!strcmp(op, "unew")) { u = (struct UncompressedFile *)calloc(1, sizeof(*u)); UncompressedFile_ctor(u); ustate(u); }
        else if (!strcmp(op, "udel")) { UncompressedFile_dtor(u); free(u); u = NULL; printf(" | -\n"); }
        else if (!strcmp(op, "uwrite")) { for (long i = 0; i < a; i++) buf[i] = (char)pat((unsigned)b, i); UncompressedFile_write(u, buf, a); ustate(u); }
        else if (!strcmp(op, "uread")) {
            memset(buf, 0xEE, (size_t)(a > 0 ? a : 0)); UncompressedFile_read(u, buf, a);
            long long gc = UncompressedFile_gcount(u); unsigned h = 2166136261u;
            for (long long i = 0; i < gc; i++) h = (h ^ (unsigned char)buf[i]) * 16777619u;
            printf(" h=%08x", h); ustate(u); }
        else if (!strcmp(op, "useekg")) { UncompressedFile_seekg(u, a, (int)b); ustate(u); }
        else if (!strcmp(op, "uskipp")) { UncompressedFile_skipp(u, a); ustate(u); }
        else if (!strcmp(op, "usetfs")) { UncompressedFile_setFileSize(u, a); ustate(u); }
        else if (!strcmp(op, "usetbs")) { UncompressedFile_setBufferSize(u, a); ustate(u); }
        else if (!strcmp(op, "usetdl")) { UncompressedFile_setDefaultLogContainerSize(u, (uint32_t)a); ustate(u); }
        else if (!strcmp(op, "udrop")) { UncompressedFile_dropOldData(u); ustate(u); }
        else if (!strcmp(op, "unext")) { UncompressedFile_nextLogContainer(u); ustate(u); }
        else if (!strcmp(op, "uabort")) { UncompressedFile_abort(u); ustate(u); }
        else if (!strcmp(op, "ulc")) {
            struct LogContainer *lc = LogContainer_new();      /* make_shared: one owner (this scope) */
            vec_uint8_t_resize(&lc->uncompressedFile, (size_t)a);
            for (long i = 0; i < a; i++) lc->uncompressedFile.data[i] = pat((unsigned)b, i);
            lc->uncompressedFileSize = (uint32_t)a;
            UncompressedFile_write__std__shared_ptr_LogContainer(u, lc);
            VB_SPTR_RELEASE(lc);
            ustate(u); }
        else if (!strcmp(op, "qnew")) { q = (struct ObjectQueue *)calloc(1, sizeof(*q)); ObjectQueue_ctor(q); qstate(q); }
        else if (!strcmp(op, "qdel")) { long d0 = ndeleted; ObjectQueue_dtor(q); free(q); q = NULL; printf(" deleted=%ld | -\n", ndeleted - d0); }
        else if (!strcmp(op, "qwrite")) { struct ObjectHeaderBase *o = (struct ObjectHeaderBase *)calloc(1, sizeof(*o)); o->objectSize = (uint32_t)a; ObjectQueue_write(q, o); qstate(q); }
        else if (!strcmp(op, "qread")) { struct ObjectHeaderBase *o = ObjectQueue_read(q); if (o) { printf(" id=%u", o->objectSize); free(o); } else printf(" id=null"); qstate(q); }
        else if (!strcmp(op, "qsetfs")) { ObjectQueue_setFileSize(q, (uint32_t)a); qstate(q); }
        else if (!strcmp(op, "qsetbs")) { ObjectQueue_setBufferSize(q, (uint32_t)a); qstate(q); }
        else if (!strcmp(op, "qabort")) { ObjectQueue_abort(q); qstate(q); }
        else { printf(" ?\n"); return 3; }
    }
    return 0;
}
'''

CPP_DRIVER = r'''
#include <cstdio>
#include <cstring>
#include <cstdlib>
#include <memory>
#include <Vector/BLF.h>
#include <Vector/BLF/UncompressedFile.h>
#include <Vector/BLF/ObjectQueue.h>
using namespace Vector::BLF;
static long ndeleted;
struct Obj : public ObjectHeader { Obj() : ObjectHeader(ObjectType::CAN_MESSAGE) {} ~Obj() override { ndeleted++; } };
static unsigned char pat(unsigned seed, long i) { return (unsigned char)(seed * 31u + (unsigned)i * 7u + (unsigned)(i >> 8)); }
static void ustate(UncompressedFile *u)
{
    printf(" | g=%lld p=%lld fs=%lld good=%d eof=%d gc=%lld dlcs=%u\n", (long long)u->tellg(), (long long)u->tellp(), (long long)u->fileSize(),
           (int)u->good(), (int)u->eof(), (long long)u->gcount(), u->defaultLogContainerSize());
}
static void qstate(ObjectQueue<ObjectHeaderBase> *q)
{
    printf(" | g=%u p=%u good=%d eof=%d\n", q->tellg(), q->tellp(), (int)q->good(), (int)q->eof());
}
int main()
{
    char op[32]; long long a, b;
    UncompressedFile *u = nullptr; ObjectQueue<ObjectHeaderBase> *q = nullptr;
    static char buf[1 << 20];
    setvbuf(stdout, NULL, _IOLBF, 0);   /* LeakSanitizer ends the process without flushing stdio */
    while (scanf("%31s %lld %lld", op, &a, &b) == 3) {
        printf("%s %lld %lld", op, a, b);
        if (!strcmp(op, "unew")) { u = new UncompressedFile; ustate(u); }
        else if (!strcmp(op, "udel")) { delete u; u = nullptr; printf(" | -\n"); }
        else if (!strcmp(op, "uwrite")) { for (long i = 0; i < a; i++) buf[i] = (char)pat((unsigned)b, i); u->write(buf, a); ustate(u); }
        else if (!strcmp(op, "uread")) {
            memset(buf, 0xEE, (size_t)(a > 0 ? a : 0)); u->read(buf, a);
            long long gc = u->gcount(); unsigned h = 2166136261u;
            for (long long i = 0; i < gc; i++) h = (h ^ (unsigned char)buf[i]) * 16777619u;
            printf(" h=%08x", h); ustate(u); }
        else if (!strcmp(op, "useekg")) { u->seekg(a, (std::ios_base::seekdir)std::ios_base::cur); ustate(u); }
        else if (!strcmp(op, "uskipp")) { u->skipp(a); ustate(u); }
        else if (!strcmp(op, "usetfs")) { u->setFileSize(a); ustate(u); }
        else if (!strcmp(op, "usetbs")) { u->setBufferSize(a); ustate(u); }
        else if (!strcmp(op, "usetdl")) { u->setDefaultLogContainerSize((uint32_t)a); ustate(u); }
        else if (!strcmp(op, "udrop")) { u->dropOldData(); ustate(u); }
        else if (!strcmp(op, "unext")) { u->nextLogContainer(); ustate(u); }
        else if (!strcmp(op, "uabort")) { u->abort(); ustate(u); }
        else if (!strcmp(op, "ulc")) {
            std::shared_ptr<LogContainer> lc = std::make_shared<LogContainer>();
            lc->uncompressedFile.resize((size_t)a);
            for (long i = 0; i < a; i++) lc->uncompressedFile[i] = pat((unsigned)b, i);
            lc->uncompressedFileSize = (uint32_t)a;
            u->write(lc);
            ustate(u); }
        else if (!strcmp(op, "qnew")) { q = new ObjectQueue<ObjectHeaderBase>; qstate(q); }
        else if (!strcmp(op, "qdel")) { long d0 = ndeleted; delete q; q = nullptr; printf(" deleted=%ld | -\n", ndeleted - d0); }
        else if (!strcmp(op, "qwrite")) { Obj *o = new Obj; o->objectSize = (uint32_t)a; q->write(o); qstate(q); }
        else if (!strcmp(op, "qread")) { ObjectHeaderBase *o = q->read(); if (o) { printf(" id=%u", o->objectSize); long d = ndeleted; delete o; ndeleted = d; } else printf(" id=null"); qstate(q); }
        else if (!strcmp(op, "qsetfs")) { q->setFileSize((uint32_t)a); qstate(q); }
        else if (!strcmp(op, "qsetbs")) { q->setBufferSize((uint32_t)a); qstate(q); }
        else if (!strcmp(op, "qabort")) { q->abort(); qstate(q); }
        else { printf(" ?\n"); return 3; }
    }
    return 0;
}
'''


def gen_stream_script(rnd, mode):
    """mode 'r': containers appended whole (decompression side); 'w': bytes appended (encoder side); 'm': both mixed"""
    ops = ['unew 0 0']
    g = 0; p = 0; fs = (1 << 63) - 1; bs = (1 << 63) - 1; dl = 0x20000; aborted = False; dropped = False
    if rnd.random() < 0.7:
        dl = rnd.choice([1, 7, 64, 1000, 4096]); ops.append('usetdl %d 0' % dl)
    for _ in range(NOPS):
        r = rnd.random()
        can_append = aborted or (p - g) < bs
        if mode != 'w': can_append = can_append and (aborted or ((p - g) & 0xffffffff) < bs)
        if r < 0.30 and can_append:
            if mode == 'r' or (mode == 'm' and rnd.random() < 0.5):
                n = rnd.choice([0, 1, 5, 100, 4096, rnd.randint(1, 3000)])
                ops.append('ulc %d %d' % (n, rnd.randint(0, 255))); p += n
            else:
                n = rnd.choice([0, 1, 3, dl, dl + 1, rnd.randint(1, 3 * dl + 5)])
                n = min(n, 1 << 19)
                if rnd.random() < 0.2: ops.append('uskipp %d 0' % n)
                else: ops.append('uwrite %d %d' % (n, rnd.randint(0, 255)))
                p += n
                if p >= fs: fs = p
        elif r < 0.60:
            n = rnd.choice([0, 1, 2, 16, dl, rnd.randint(0, 5000)])
            n = min(n, 1 << 19)
            if n + g <= p and n + g <= fs:
                ops.append('uread %d 0' % n); g += n
            elif fs <= p and n + g > fs and g <= fs:
                ops.append('uread %d 0' % n); g = fs
            else:
                continue
        elif r < 0.70:
            off = rnd.choice([0, 1, 4, rnd.randint(0, 300)])
            if not dropped and rnd.random() < 0.3: off = -rnd.randint(0, g) if g > 0 else 0
            ops.append('useekg %d 1' % off); g = min(g + off, fs)
        elif r < 0.80:
            ops.append('udrop 0 0'); dropped = True
        elif r < 0.85 and mode != 'r':
            ops.append('unext 0 0')
        elif r < 0.90:
            # declared end: at the put position (what the workers do) or a little beyond the get position
            n = p if rnd.random() < 0.7 else max(g, p - rnd.randint(0, 10))
            ops.append('usetfs %d 0' % n); fs = n
        elif r < 0.94:
            bs = rnd.choice([1, 100, 1 << 20, 1 << 40]); ops.append('usetbs %d 0' % bs)
        elif r < 0.96:
            ops.append('uabort 0 0'); aborted = True
        elif r < 0.98:
            dl = rnd.choice([1, 7, 64, 1000, 4096]); ops.append('usetdl %d 0' % dl)
    ops.append('udel 0 0')
    return ops


def gen_queue_script(rnd):
    ops = ['qnew 0 0']
    size = 0; g = 0; p = 0; fs = 0xffffffff; bs = 0xffffffff; aborted = False; nid = 1
    for _ in range(NOPS):
        r = rnd.random()
        if r < 0.45 and (aborted or size < bs):
            ops.append('qwrite %d 0' % nid); nid += 1; size += 1; p += 1
            if p > fs: fs = p
        elif r < 0.80:
            if aborted or size > 0 or g >= fs:
                ops.append('qread 0 0')
                if size > 0: size -= 1; g += 1
        elif r < 0.88:
            bs = rnd.choice([1, 2, 10, 0xffffffff]); ops.append('qsetbs %d 0' % bs)
        elif r < 0.95:
            fs = p if rnd.random() < 0.7 else rnd.choice([0, g, p + 3]); ops.append('qsetfs %d 0' % fs)
        elif r < 0.97:
            ops.append('qabort 0 0'); aborted = True
    ops.append('qdel 0 0')
    return ops


def scripts():
    rnd = random.Random(20260928)
    out = []
    for i in range(NSCRIPTS):
        out.append(gen_stream_script(rnd, ('w', 'r', 'm')[i % 3]))
        out.append(gen_queue_script(rnd))
    return out


def run():
    """-> dict(status, programs, operations, disagreements, detail)"""
    core.ensure_extracted()
    h = hashlib.sha256((core.src_hash() + open(__file__).read()).encode()).hexdigest()[:16]
    wd = os.path.join(core.BUILD, 'tv_stage'); os.makedirs(wd, exist_ok=True)
    cache = os.path.join(wd, 'result.json')
    if os.path.exists(cache):
        r = json.load(open(cache))
        if r.get('hash') == h: return r
    lib = replay_gen.ensure_native()
    open(os.path.join(wd, 'c_driver.c'), 'w').write(C_DRIVER)
    open(os.path.join(wd, 'cpp_driver.cpp'), 'w').write(CPP_DRIVER)
    san = ['-fsanitize=address,undefined', '-fno-sanitize-recover=undefined', '-g', '-O1']
    c = subprocess.run(['gcc', '-std=gnu11', '-w'] + san + ['-I', core.GEN, '-I', os.path.join(core.VERIF, 'contracts'), 'c_driver.c', '-o', 'c_driver'],
                       cwd=wd, stdout=subprocess.PIPE, stderr=subprocess.STDOUT, text=True)
    if c.returncode != 0:
        return dict(status='inconclusive', detail='extracted stage classes do not compile natively: ' + c.stdout[-1500:], hash='')
    libdir = os.path.join(lib, 'src', 'Vector', 'BLF')
    c = subprocess.run(['g++', '-std=c++11', '-w'] + san + ['-I', os.path.join(core.REPO, 'src'), '-I', os.path.join(lib, 'src'), 'cpp_driver.cpp', '-o', 'cpp_driver',
                        '-L', libdir, '-lVector_BLF', '-Wl,-rpath,' + libdir, '-lpthread'],
                       cwd=wd, stdout=subprocess.PIPE, stderr=subprocess.STDOUT, text=True)
    if c.returncode != 0:
        return dict(status='inconclusive', detail='driver for the real stage classes does not compile: ' + c.stdout[-1500:], hash='')
    env = dict(os.environ, ASAN_OPTIONS='detect_leaks=1', UBSAN_OPTIONS='print_stacktrace=1')
    nops = 0; bad = []
    for i, sc in enumerate(scripts()):
        text = '\n'.join(sc) + '\n'
        try:
            a = subprocess.run(['./c_driver'], cwd=wd, input=text, stdout=subprocess.PIPE, stderr=subprocess.PIPE, text=True, timeout=60, env=env)
            b = subprocess.run(['./cpp_driver'], cwd=wd, input=text, stdout=subprocess.PIPE, stderr=subprocess.PIPE, text=True, timeout=60, env=env)
        except subprocess.TimeoutExpired:
            return dict(status='inconclusive', detail='script %d blocks (generator defect): %s' % (i, ' ; '.join(sc[:40])), hash='')
        if 'wait predicate false' in a.stderr:
            return dict(status='inconclusive', detail='script %d would block (generator defect)' % i, hash='')
        nops += len(sc)
        if a.returncode != 0 or b.returncode != 0 or a.stdout != b.stdout:
            la = a.stdout.split('\n'); lb = b.stdout.split('\n')
            k = next((j for j in range(min(len(la), len(lb))) if la[j] != lb[j]), min(len(la), len(lb)))
            bad.append(dict(script=i, line=k, extracted=la[k] if k < len(la) else '<end>', real=lb[k] if k < len(lb) else '<end>',
                            rc=[a.returncode, b.returncode], stderr=(a.stderr[-600:] + ' || ' + b.stderr[-600:])))
            open(os.path.join(wd, 'disagree_%d.script' % i), 'w').write(text)
    r = dict(status='ok' if not bad else 'disagree', programs=2 * NSCRIPTS, operations=nops, disagreements=len(bad), detail=bad[:5], hash=h,
             what='extracted UncompressedFile/ObjectQueue (native build with the executable list/queue/shared_ptr models) vs the real classes on %d sequential operation scripts' % (2 * NSCRIPTS))
    if not bad: json.dump(r, open(cache, 'w'))
    return r


if __name__ == '__main__':
    r = run()
    print(json.dumps(r, indent=1)[:3000])
    sys.exit(0 if r['status'] == 'ok' else 2)
