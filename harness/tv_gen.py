"""Translation validation: the C text cxx2c extracts (the text CBMC verifies) is compiled NATIVELY and run against
the REAL library on (a) every object image of the reference logs (decode, then re-encode) and (b) pseudo-random
objects of every class (same member values on both sides, encode); the emitted bytes, consumed counts, stream state,
exceptions and size fields must agree line by line.  A disagreement is an extractor (or model) defect -> exit 2."""
import os, sys, json, subprocess, hashlib, random
sys.path.insert(0, os.path.dirname(os.path.dirname(os.path.abspath(__file__))))
sys.path.insert(0, os.path.join(os.path.dirname(os.path.dirname(os.path.abspath(__file__))), 'tools'))
from run import core, classinfo
from harness import replay_gen

C_PRE = r'''
#include <stdio.h>
#include <stdlib.h>
#include <string.h>
#include "af_bytes.h"
#include "blf.h"
#include "af_bytes_impl.h"
'''


def generate_c(info, out):
    classes = [c for c in info.codec_classes() if info.is_object(c) and info.classes[c]['default_constructible'] and info.class_codes(c)]
    src = C_PRE
    owners = set()
    for c in classes: owners |= set(info.deps(c))
    for o in sorted(owners):
        if o in ('File', 'UncompressedFile', 'CompressedFile', 'ObjectQueue'): continue
        src += '#include "%s.c"\n' % o
    src += '#include "vb_native.c"\n'
    src += '''#undef Z_OK
#include <zlib.h>
unsigned long vb_zlib_compressBound(unsigned long n) { return compressBound(n); }
int vb_zlib_uncompress(uint8_t *d, unsigned long *dl, const uint8_t *s, unsigned long sl) { return uncompress(d, dl, s, sl); }
int vb_zlib_compress2(uint8_t *d, unsigned long *dl, const uint8_t *s, unsigned long sl, int level) { return compress2(d, dl, s, sl, level); }
'''
    src += 'static void fillb(unsigned char *p, size_t n, unsigned seed, unsigned k) { for (size_t i = 0; i < n; i++) p[i] = (unsigned char)(seed + k * i + (k == 131 ? (i >> 8) : 0)); }\n'
    for c in classes:
        src += 'static int op_%s(struct %s *x, const char *op, const char *p, unsigned long long v, unsigned long long *out)\n{\n' % (c, c)
        for l in info.leaves(c):
            lv = 'x->' + l['path']
            if l['kind'] == 'scalar' and l['ctype'] in classinfo.SIZES:
                if l['ctype'] == 'double':
                    src += '    if (!strcmp(p, "%s")) { if (!strcmp(op, "set")) memcpy(&%s, &v, 8); else memcpy(out, &%s, 8); return 1; }\n' % (l['path'], lv, lv)
                else:
                    src += '    if (!strcmp(p, "%s")) { if (!strcmp(op, "set")) %s = (%s)v; else *out = (unsigned long long)%s; return 1; }\n' % (l['path'], lv, l['ctype'], lv)
            elif l['kind'] == 'vec':
                sn = 'vec_' + classinfo.cid(l['elem'])
                src += '    if (!strcmp(p, "%s")) { if (!strcmp(op, "size")) { %s_resize(&%s, (size_t)v); fillb((unsigned char *)%s.data, (size_t)v * sizeof(%s), (unsigned)v, 131); } else *out = %s.size; return 1; }\n' % (
                    l['path'], sn, lv, lv, l['elem'], lv)
            elif l['kind'] == 'array':
                src += '    if (!strcmp(p, "%s")) { if (!strcmp(op, "fill")) fillb((unsigned char *)%s.e, sizeof(%s), (unsigned)v, 17); else *out = %d; return 1; }\n' % (l['path'], lv, lv, l['count'])
        src += '    return 0;\n}\n'
    src += 'struct any { const char *name; void *(*mk)(void); int (*op)(void *, const char *, const char *, unsigned long long, unsigned long long *); void (*rd)(void *, struct AbstractFile *); void (*wr)(void *, struct AbstractFile *); unsigned (*calc)(void *); size_t ohb; };\n'
    for c in classes:
        vt = info.classes[c]['vtable']
        def call(m, extra=''):
            v = vt[m]; s = '(struct %s *)o' % c
            if v['self']: s = '&((struct %s *)o)->%s' % (c, v['self'])
            return '%s(%s%s)' % (v['fn'], s, extra)
        src += 'static void *mk_%s(void) { return %s_new(); }\n' % (c, c)
        src += 'static int opw_%s(void *o, const char *a, const char *b, unsigned long long v, unsigned long long *out) { return op_%s((struct %s *)o, a, b, v, out); }\n' % (c, c, c)
        src += 'static void rd_%s(void *o, struct AbstractFile *f) { %s; }\n' % (c, call('read', ', f'))
        src += 'static void wr_%s(void *o, struct AbstractFile *f) { %s; }\n' % (c, call('write', ', f'))
        src += 'static unsigned calc_%s(void *o) { return %s; }\n' % (c, call('calculateObjectSize'))
    src += 'static struct any table[] = {\n'
    for c in classes:
        ohb = info.ohb(c)
        src += '    {"%s", mk_%s, opw_%s, rd_%s, wr_%s, calc_%s, offsetof(struct %s, %s)},\n' % (c, c, c, c, c, c, c, (ohb + '.objectSize') if ohb else 'objectSize')
    src += '    {0, 0, 0, 0, 0, 0, 0}\n};\n'
    src += r'''
static unsigned char obuf[1 << 23], ibuf[1 << 16];
static void mkfile(struct AbstractFile *f, unsigned char *b, long cap, long fsz) { memset(f, 0, sizeof(*f)); f->buf = b; f->cap = cap; f->fileSize = fsz; f->hdr_end = -1; }
static void emit(struct any *t, void *o)
{
    struct AbstractFile f; mkfile(&f, obuf, sizeof(obuf), INT64_MAX); vb_exc = 0;
    t->wr(o, &f);
    struct ObjectHeaderBase *h = (struct ObjectHeaderBase *)((char *)o + t->ohb - offsetof(struct ObjectHeaderBase, objectSize));
    printf("W %ld ", (long)f.p); for (long i = 0; i < f.p; i++) printf("%02x", obuf[i]); printf(" os=%u hs=%u calc=%u\n", h->objectSize, h->headerSize, t->calc(o));
}
int main(void)
{
    char line[1 << 17]; struct any *t = 0; void *o = 0;
    while (fgets(line, sizeof(line), stdin)) {
        char cmd[32], a[1 << 16]; unsigned long long v = 0; a[0] = 0;
        int n = sscanf(line, "%31s %65535s %llu", cmd, a, &v);
        if (n < 1) continue;
        if (!strcmp(cmd, "class")) { for (t = table; t->name && strcmp(t->name, a); t++); if (!t->name) { printf("E unknown class\n"); return 3; } o = t->mk(); }
        else if (!strcmp(cmd, "set") || !strcmp(cmd, "size") || !strcmp(cmd, "fill")) { unsigned long long out; if (!t->op(o, cmd, a, v, &out)) { printf("E unknown member %s\n", a); return 3; } }
        else if (!strcmp(cmd, "hexwrite")) emit(t, o);
        else if (!strcmp(cmd, "image")) {
            size_t len = strlen(a) / 2; for (size_t i = 0; i < len; i++) { unsigned x; sscanf(a + 2 * i, "%2x", &x); ibuf[i] = (unsigned char)x; }
            struct AbstractFile f; mkfile(&f, ibuf, (long)len, (long)len); void *y = t->mk(); vb_exc = 0;
            t->rd(y, &f);
            struct ObjectHeaderBase *h = (struct ObjectHeaderBase *)((char *)y + t->ohb - offsetof(struct ObjectHeaderBase, objectSize));
            int exc = vb_exc;
            printf("R g=%ld good=%d exc=%d os=%u hs=%u type=%u\n", (long)f.g, f.rdstate == 0, exc, h->objectSize, h->headerSize, h->objectType);
            if (!exc) emit(t, y);
        }
    }
    return 0;
}
'''
    open(out, 'w').write(src)


def build_c(info):
    d = os.path.join(core.BUILD, 'tv'); os.makedirs(d, exist_ok=True)
    cfile = os.path.join(d, 'tv_c.c'); exe = os.path.join(d, 'tv_c')
    h = core.src_hash() + hashlib.sha256(open(__file__, 'rb').read()).hexdigest()
    for fn in ('af_bytes.h', 'af_bytes_impl.h'):
        h += hashlib.sha256(open(os.path.join(core.CONTRACTS, fn), 'rb').read()).hexdigest()
    stamp = os.path.join(d, '.hash')
    if os.path.exists(exe) and os.path.exists(stamp) and open(stamp).read() == h: return exe
    generate_c(info, cfile)
    p = subprocess.run(['gcc', '-std=gnu11', '-O1', '-w', '-I', core.GEN, '-I', core.CONTRACTS, cfile, '-o', exe, '-lz'],
                       stdout=subprocess.PIPE, stderr=subprocess.STDOUT, text=True)
    if p.returncode != 0: raise core.Inconclusive('the extracted C does not compile natively: ' + p.stdout[-1500:])
    open(stamp, 'w').write(h)
    return exe


def scripts(info, seed, per_class):
    """-> list of (description, script text)"""
    import blfwalk
    from checks import c02
    out = []
    by, nobj = c02.collect_images(info)
    for cn in sorted(by):
        if not (info.is_object(cn) and info.classes[cn]['default_constructible']): continue
        for im in by[cn]:
            b = im['image'] + im['pad']
            out.append(('image %s %s' % (cn, im['src']), 'class %s\nimage %s\n' % (cn, b.hex())))
    rnd = random.Random(seed)
    classes = [c for c in info.codec_classes() if info.is_object(c) and info.classes[c]['default_constructible'] and info.class_codes(c)]
    for cn in classes:
        for k in range(per_class):
            lines = ['class %s' % cn]
            for l in info.leaves(cn):
                if l['owner'] == 'ObjectHeaderBase' and l['name'] == 'signature': continue
                if l['kind'] == 'scalar' and l['ctype'] in classinfo.SIZES:
                    w = classinfo.SIZES[l['ctype']] * 8
                    v = rnd.choice([0, 1, (1 << w) - 1, 1 << (w - 1), rnd.getrandbits(w), rnd.getrandbits(w)])
                    if l['ctype'] == '_Bool': v &= 1
                    lines.append('set %s %d' % (l['path'], v))
                elif l['kind'] == 'vec':
                    lines.append('size %s %d' % (l['path'], rnd.choice([0, 1, 2, 3, 4, 5, 7, 8, 13, 64, 300])))
                elif l['kind'] == 'array':
                    lines.append('fill %s %d' % (l['path'], rnd.getrandbits(8)))
            lines.append('hexwrite')
            out.append(('random %s #%d' % (cn, k), '\n'.join(lines) + '\n'))
    return out


def run(info, seed=0, per_class=4):
    exe_c = build_c(info)
    exe_cpp, _ = replay_gen.ensure_driver(info)
    env = dict(os.environ, ASAN_OPTIONS='detect_leaks=0', UBSAN_OPTIONS='halt_on_error=0')
    sc = scripts(info, seed, per_class)
    disagreements = []; samples = []
    for desc, text in sc:
        a = subprocess.run([exe_c], input=text, stdout=subprocess.PIPE, stderr=subprocess.PIPE, text=True, timeout=120)
        b = subprocess.run([exe_cpp], input=text, stdout=subprocess.PIPE, stderr=subprocess.PIPE, text=True, timeout=120, env=env)
        la = [l for l in a.stdout.splitlines() if l[:2] in ('W ', 'R ', 'E ')]
        lb = [l for l in b.stdout.splitlines() if l[:2] in ('W ', 'R ', 'E ')]
        if la != lb or a.returncode != 0 or not la:
            disagreements.append(dict(case=desc, extracted_c=la[:3], real_library=lb[:3], rc=(a.returncode, b.returncode), script=text[:400]))
        elif len(samples) < 6:
            samples.append(dict(case=desc, agreed_output=[x[:120] for x in la]))
    return dict(programs=len(sc), disagreements=disagreements, samples=samples)


if __name__ == '__main__':
    meta = core.ensure_extracted()
    info = classinfo.Info(meta)
    r = run(info, core.seed(), 4 if core.tier() == 'quick' else 40)
    print(json.dumps(dict(programs=r['programs'], disagreements=r['disagreements'][:10]), indent=1)[:4000])
    sys.exit(2 if r['disagreements'] else 0)
