#include <Vector/BLF.h>
#include <cstdio>
#include <unistd.h>
using namespace Vector::BLF;
int main(int argc, char **argv) {
    int bad = 0;
    for (int i = 1; i < argc; i++) {
        alarm(20);
        File f; f.open(argv[i]); if (!f.is_open()) { printf("%s: cannot open\n", argv[i]); bad++; continue; }
        unsigned n = 0; while (ObjectHeaderBase *o = f.read()) { n++; delete o; }
        f.close();
        bool ok = (f.currentObjectCount == f.fileStatistics.objectCount) && (f.currentUncompressedFileSize == f.fileStatistics.uncompressedFileSize);
        if (!ok) { bad++; printf("%s: read %u objects; counters: objects %u vs header %u, size %llu vs header %llu\n", argv[i], n, (unsigned)f.currentObjectCount, f.fileStatistics.objectCount, (unsigned long long)f.currentUncompressedFileSize, (unsigned long long)f.fileStatistics.uncompressedFileSize); }
    }
    printf("%d of %d files disagree\n", bad, argc - 1); return bad != 0;
}
