"""C emitter: class table + parsed function bodies -> C translation unit.

Mapping rules are documented in DESIGN.md section 4.  Each rule either fires or
raises EmitError (file/line/rule) - nothing is guessed.
"""
from .parser import Type, ClassDef, EnumDef, FuncDef, ParseError

class EmitError(Exception):
    pass

SCALARS = {
    'bool': '_Bool', 'char': 'char', 'int': 'int', 'unsigned': 'unsigned', 'unsigned int': 'unsigned',
    'long': 'long', 'unsigned long': 'unsigned long', 'short': 'short', 'double': 'double', 'float': 'float',
    'size_t': 'size_t', 'uint8_t': 'uint8_t', 'uint16_t': 'uint16_t', 'uint32_t': 'uint32_t', 'uint64_t': 'uint64_t',
    'int8_t': 'int8_t', 'int16_t': 'int16_t', 'int32_t': 'int32_t', 'int64_t': 'int64_t',
    'uLong': 'unsigned long', 'uLongf': 'unsigned long', 'Byte': 'uint8_t', 'Bytef': 'uint8_t', 'char16_t': 'uint16_t',
    'std::streamsize': 'int64_t', 'std::streamoff': 'int64_t', 'std::streampos': 'int64_t',
    'std::ios_base::iostate': 'int', 'std::ios_base::openmode': 'int', 'std::ios_base::seekdir': 'int',
    'void': 'void', 'std::size_t': 'size_t',
}
SCALAR_SIZE = {'_Bool': 1, 'char': 1, 'uint8_t': 1, 'int8_t': 1, 'uint16_t': 2, 'int16_t': 2, 'uint32_t': 4, 'int32_t': 4,
               'int': 4, 'unsigned': 4, 'uint64_t': 8, 'int64_t': 8, 'double': 8, 'float': 4, 'size_t': 8,
               'long': 8, 'unsigned long': 8, 'short': 2}
IOS_CONST = {
    'std::ios_base::cur': 'IOS_cur', 'std::ios_base::beg': 'IOS_beg', 'std::ios_base::end': 'IOS_end',
    'std::ios_base::goodbit': 'IOS_goodbit', 'std::ios_base::badbit': 'IOS_badbit',
    'std::ios_base::eofbit': 'IOS_eofbit', 'std::ios_base::failbit': 'IOS_failbit',
    'std::ios_base::in': 'IOS_in', 'std::ios_base::out': 'IOS_out', 'std::ios_base::binary': 'IOS_binary',
}
OPAQUE = {  # std types replaced by ghost models from the runtime header
    'std::mutex': 'struct vb_mutex', 'std::condition_variable': 'struct vb_cv', 'std::thread': 'struct vb_thread',
    'std::exception_ptr': 'int', 'std::fstream': 'struct vb_fstream',
}
VEC_ELEM = {'std::string': 'char', 'std::u16string': 'char16_t'}


def sanitize(s):
    out = ''
    for ch in s:
        out += ch if ch.isalnum() or ch == '_' else '_'
    return out


class Ctx:
    def __init__(self, em, D, fd, fname):
        self.em = em; self.D = D; self.fd = fd; self.fname = fname
        self.scopes = [{}]
        self.ret = fd.ret if fd is not None else None
        self.try_stack = []      # labels of enclosing try blocks
        self.loop_no = 0
        self.tmp_no = 0
        self.label_no = 0
        self.static = False
        self.lifted = []         # extra functions produced (wait predicates)
        self.undef_macros = set()
    def push(self): self.scopes.append({})
    def pop(self): self.scopes.pop()
    def declare(self, name, ty): self.scopes[-1][name] = ty
    def local(self, name):
        for s in reversed(self.scopes):
            if name in s: return s[name]
        return None
    def all_locals(self):
        d = {}
        for s in self.scopes: d.update(s)
        return d


class Emitter:
    def __init__(self, unit, not_extracted=()):
        self.u = unit
        self.classes = unit.classes
        self.not_extracted = set(not_extracted)
        self.funcs = {}    # (cls, name) -> [FuncDef]
        for fd in unit.funcs:
            self.funcs.setdefault((fd.cls, fd.name), []).append(fd)
        for c in unit.classes.values():
            for fd in c.inline_defs:
                self.funcs.setdefault((fd.cls, fd.name), []).append(fd)
        self.subclasses = {}
        for c in self.classes.values():
            for b in c.bases:
                self.subclasses.setdefault(b, []).append(c.name)
        self.enum_by_name = {}
        for e in unit.enums.values():
            self.enum_by_name[e.name] = e
        for c in self.classes.values():
            for e in c.enums:
                self.enum_by_name.setdefault(e.name, e)   # nested; also reachable as Class::Enum
        self.vec_types = {}   # vec struct name -> elem ctype
        self.emitted = {}     # function name -> text
        self.order = []       # emission order
        self.protos = {}      # function name -> prototype text
        self.worklist = []
        self.maythrow_cache = {}
        self.fn_meta = {}     # function name -> dict(cls, method, base, file, line, locks, loops)
        self.dispatchers = {} # (root, method) -> prototype info
        self.cls_tags = {}
        self.file_undefs = {}
        self.dyn_cache = {}
        self._touch_cache = {}
        self.touched = set()   # (class, member) pairs that got a VB_TOUCH hook
        self.thread_entries = {}   # class -> thread member -> [entry functions started on it]
        for (f, line, text) in unit.pp:
            parts = text.split()
            if parts[0] == '#undef' or (parts[0] == '#' and parts[1] == 'undef'):
                self.file_undefs.setdefault(f, set()).add(parts[-1])

    # ---------------------------------------------------------------- class table
    def cls(self, name):
        c = self.classes.get(name)
        if c is None: raise EmitError('unknown class %s' % name)
        return c

    def all_bases(self, name):
        out = []
        for b in self.cls(name).bases:
            if b in self.classes:
                out.append(b); out += self.all_bases(b)
        return out

    def derives_from(self, name, base):
        return name == base or base in self.all_bases(name)

    def is_polymorphic(self, name):
        c = self.cls(name)
        if any(m.get('virtual') or m.get('override') for m in c.methods): return True
        return any(self.is_polymorphic(b) for b in c.bases if b in self.classes)

    def root_of(self, name):
        """first-base chain root"""
        c = self.cls(name)
        while c.bases and c.bases[0] in self.classes:
            c = self.cls(c.bases[0])
        return c.name

    def is_abstract(self, name):
        seen = set()
        for cname in [name] + self.all_bases(name):
            for m in self.cls(cname).methods:
                if m['name'] in seen: continue
                if m['name'] in ('~', 'operator=') or m['ret'] is None or m.get('special'): continue
                seen.add(m['name'])
                fo = self.final_overrider(name, m['name'], len(m['params']))
                if fo is None: continue
                if fo[1].get('pure'): return True
        return False

    def lookup_member(self, D, name, _prefix=''):
        """-> (cpath, Type, owner) or None; ambiguous -> EmitError"""
        c = self.cls(D)
        for (ty, n, init, line) in c.members:
            if n == name: return (_prefix + n, ty, D)
        found = []
        for b in c.bases:
            if b not in self.classes: continue
            r = self.lookup_member(b, name, _prefix + 'b_' + b + '.')
            if r: found.append(r)
        if len(found) > 1: raise EmitError('ambiguous member %s in %s' % (name, D))
        return found[0] if found else None

    def base_path(self, D, B, _prefix=''):
        """C member path from struct D to its base sub-object B ('' if D == B)"""
        if D == B: return _prefix.rstrip('.')
        for b in self.cls(D).bases:
            if b not in self.classes: continue
            if self.derives_from(b, B):
                return self.base_path(b, B, _prefix + 'b_' + b + '.')
        raise EmitError('%s is not a base of %s' % (B, D))

    def methods_named(self, cname, name):
        return [m for m in self.cls(cname).methods if m['name'] == name]

    def final_overrider(self, D, name, nargs=None, first_arg_ty=None):
        """-> (F, methoddecl): the declaration a call D::name resolves to (nearest in D then bases)"""
        cands = self.methods_named(D, name)
        cands = self._filter_overload(cands, nargs, first_arg_ty)
        if cands: return (D, cands[0])
        found = []
        for b in self.cls(D).bases:
            if b not in self.classes: continue
            r = self.final_overrider(b, name, nargs, first_arg_ty)
            if r and r not in found: found.append(r)
        if len(found) > 1:
            # same declaration reached twice is fine, otherwise ambiguous
            if len({f[0] for f in found}) > 1:
                raise EmitError('ambiguous method %s in %s (bases %s)' % (name, D, [f[0] for f in found]))
        return found[0] if found else None

    def _filter_overload(self, cands, nargs, first_arg_ty):
        if len(cands) <= 1 or nargs is None: return cands
        ok = []
        for m in cands:
            req = sum(1 for p in m['params'] if p[2] is None)
            if req <= nargs <= len(m['params']): ok.append(m)
        if len(ok) > 1 and first_arg_ty is not None:
            ok2 = [m for m in ok if m['params'] and self._arg_matches(m['params'][0][0], first_arg_ty)]
            if ok2: ok = ok2
        return ok

    def _arg_matches(self, pty, aty):
        if aty is None: return False
        if pty.name == aty.name: return True
        if pty.name in ('char',) and pty.ptr and aty.name == 'char' and aty.ptr: return True
        return False

    def is_virtual(self, D, name):
        for cname in [D] + self.all_bases(D):
            for m in self.methods_named(cname, name):
                if m.get('virtual'): return True
        return False

    def overloaded(self, F, name):
        return len(self.methods_named(F, name)) > 1

    def ovl_suffix(self, F, m):
        """name suffix for overloaded methods; the overload that overrides a base virtual keeps the plain name"""
        if not self.overloaded(F, m['name']): return ''
        for b in self.all_bases(F):
            for bm in self.methods_named(b, m['name']):
                if len(bm['params']) == len(m['params']) and all(
                        x[0].key() == y[0].key() for x, y in zip(bm['params'], m['params'])):
                    return ''
        ms = self.methods_named(F, m['name'])
        if not any(self._overrides_base(F, x) for x in ms) and ms[0] is m and False:
            return ''
        return '__' + '_'.join(sanitize(p[0].key()).strip('_') for p in m['params'])

    def _overrides_base(self, F, m):
        for b in self.all_bases(F):
            for bm in self.methods_named(b, m['name']):
                if len(bm['params']) == len(m['params']): return True
        return False

    # ---------------------------------------------------------------- types
    def ctype(self, ty, where=''):
        """C spelling of a value type (no reference handling)"""
        base = self.ctype_base(ty, where)
        return base + ' ' + '*' * ty.ptr if ty.ptr else base

    def elem_ctype(self, ty):
        return self.ctype(ty)

    def vec_struct(self, elem_cty):
        n = 'vec_' + sanitize(elem_cty.replace('struct ', ''))
        self.vec_types[n] = elem_cty
        return 'struct ' + n

    def ctype_base(self, ty, where=''):
        n = ty.name
        if n == 'T' and self.template_arg: n = self.template_arg
        if n in SCALARS: return SCALARS[n]
        if n.startswith('std::chrono::'): self.dropped.add('std::chrono duration types (plain 64-bit tick counts)'); return 'int64_t'
        if n in OPAQUE: return OPAQUE[n]
        if n in VEC_ELEM: return self.vec_struct(SCALARS[VEC_ELEM[n]])
        if n == 'std::vector':
            return self.vec_struct(self.ctype(ty.args[0]))
        if n == 'std::array':
            raise EmitError('std::array outside member declaration %s' % where)
        if n in ('std::shared_ptr', 'std::unique_ptr'):
            return self.ctype(ty.args[0]) + ' *'
        if n == 'std::list':
            if ty.suffix in ('const_iterator', 'iterator'): return 'size_t'
            return 'struct vb_list_' + sanitize(self.ctype(ty.args[0]).replace('struct ', '').replace(' *', '_p').replace('*', '_p'))
        if n == 'std::queue':
            return 'struct vb_queue'
        if n == 'std::atomic':
            return self.ctype(ty.args[0])
        if n == 'ObjectQueue':
            return 'struct ObjectQueue'
        if n in self.classes:
            return 'struct ' + n
        e = self.find_enum(n)
        if e is not None:
            return self.ctype(e.underlying) if e.underlying else 'int'
        raise EmitError('unmapped type %r %s' % (ty, where))

    template_arg = None

    def find_enum(self, name):
        last = name.split('::')[-1]
        return self.enum_by_name.get(last)

    def is_class(self, ty):
        return ty is not None and ty.ptr == 0 and (ty.name in self.classes or ty.name == 'ObjectQueue')

    def class_of(self, ty):
        if ty is None: return None
        n = ty.name
        if n in ('std::shared_ptr', 'std::unique_ptr'): n = ty.args[0].name
        if n == 'T' and self.template_arg: n = self.template_arg
        if n == 'ObjectQueue': return 'ObjectQueue'
        return n if n in self.classes else None

    # ---------------------------------------------------------------- enums / constants
    def enum_const_name(self, e, item):
        if e.owner: return '%s_%s_%s' % (e.owner, e.name, item)
        return '%s_%s' % (e.name, item)

    def resolve_const(self, parts, D):
        """qualified or bare identifier -> C text + Type, or None"""
        q = '::'.join(parts)
        if q in IOS_CONST: return (IOS_CONST[q], Type('int'))
        item = parts[-1]
        quals = parts[:-1]
        # namespace constants
        if not quals and item in self.u.consts:
            ty, e = self.u.consts[item]
            return ('VBC_' + item, ty)
        cands = []
        for e in self.all_enums():
            names = [i[0] for i in e.items]
            if item not in names: continue
            if quals:
                ql = [x for x in quals if x not in ('Vector', 'BLF')]
                ok = False
                if len(ql) == 1:
                    ok = (ql[0] == e.name) or (not e.scoped and ql[0] == e.owner)
                elif len(ql) == 2:
                    ok = (ql[0] == e.owner and ql[1] == e.name)
                if not ok: continue
            else:
                if e.scoped: continue
                # bare enumerator: must be visible from D
                if e.owner and (D is None or not self.derives_from(D, e.owner)): continue
            cands.append(e)
        if len(cands) > 1:
            # prefer the one owned by D's hierarchy
            own = [e for e in cands if e.owner and D and self.derives_from(D, e.owner)]
            if len(own) == 1: cands = own
        if len(cands) == 1:
            e = cands[0]
            return (self.enum_const_name(e, item), Type(e.name if not e.owner else e.name))
        if len(cands) > 1:
            raise EmitError('ambiguous enumerator %s' % q)
        return None

    def all_enums(self):
        out = list(self.u.enums.values())
        for c in self.classes.values():
            out += c.enums
        return out

    # ---------------------------------------------------------------- functions: naming and scheduling
    def needs_dyn(self, F, m, _stack=None):
        """does the body of F::m (transitively through calls on this) make a virtual call on this?
           If not, one copy F_m(struct F *) serves every dynamic type (the usual C++ compilation model);
           otherwise a copy specialised for the dynamic type D is emitted."""
        key = (F, m['name'], len(m['params']))
        if key in self.dyn_cache: return self.dyn_cache[key]
        _stack = _stack or set()
        if key in _stack: return False
        _stack = _stack | {key}
        fd = self.find_def(F, m)
        res = False
        if fd is not None:
            def walk(n):
                nonlocal res
                if res: return
                if isinstance(n, tuple):
                    if n and n[0] == 'call':
                        f = n[1]
                        name = None; qual = None
                        if f[0] == 'id': name = f[1]
                        elif f[0] == 'member' and f[1] == ('this',): name = f[2]
                        elif f[0] == 'qid' and len(f[1]) == 2 and f[1][0] in self.classes and self.derives_from(F, f[1][0]):
                            qual = f[1][0]; name = f[1][1]
                        if name is not None:
                            r = self.final_overrider(qual or F, name, len(n[2]))
                            if r is not None and not r[1].get('static'):
                                if qual is None and self.is_virtual(F, name) and not r[1].get('final') \
                                        and not self.cls(F).final:
                                    res = True; return
                                if self.needs_dyn(r[0], r[1], _stack):
                                    res = True; return
                    for x in n: walk(x)
                elif isinstance(n, list):
                    for x in n: walk(x)
            walk(fd.body)
        self.dyn_cache[key] = res
        return res

    def fn_name(self, D, F, m):
        """C name of method m (declared in F) specialised for dynamic type D"""
        if m['name'] not in ('~', F) and D != F and not self.needs_dyn(F, m):
            D = F
        suffix = self.ovl_suffix(F, m)
        name = m['name']
        if name == '~': name = 'dtor'
        elif name == F: name = 'ctor'
        fo = None
        if m['name'] not in ('~', F):
            fo = self.final_overrider(D, m['name'], len(m['params']),
                                      m['params'][0][0] if m['params'] else None)
        if D == F or (fo is not None and fo[0] == F and fo[1] is m):
            return '%s_%s%s' % (D, name, suffix)
        return '%s__%s_%s%s' % (D, F, name, suffix)

    def request(self, D, F, m):
        if m['name'] not in ('~', F) and D != F and not self.needs_dyn(F, m):
            D = F
        n = self.fn_name(D, F, m)
        if n not in self.emitted and (n, D, F, id(m)) not in [(w[0], w[1], w[2], id(w[3])) for w in self.worklist]:
            self.worklist.append((n, D, F, m))
        return n

    def find_def(self, F, m):
        fds = self.funcs.get((F, m['name']), [])
        fds = [fd for fd in fds if len(fd.params) == len(m['params']) and
               all(a[0].key() == b[0].key() for a, b in zip(fd.params, m['params']))]
        if len(fds) == 1: return fds[0]
        if not fds: return None
        raise EmitError('several definitions for %s::%s' % (F, m['name']))

    # ---------------------------------------------------------------- may-throw analysis (syntactic fixpoint)
    def compute_maythrow(self):
        """set of (F, method name, nparams) that may raise; fixpoint over the syntactic call graph"""
        thr = set()
        def body_of(fd):
            return fd.body
        defs = []
        for (F, name), fds in self.funcs.items():
            for fd in fds: defs.append(fd)
        def calls_and_throws(node, acc):
            if isinstance(node, tuple):
                if node and node[0] == 'throw': acc['throw'] = True
                if node and node[0] == 'call':
                    acc['calls'].append(node)
                if node and node[0] == 'new': acc['calls'].append(node)
                if node and node[0] == 'try':
                    # handled conservatively: still record inner calls; catch(...) is evaluated at emission
                    pass
                for x in node: calls_and_throws(x, acc)
            elif isinstance(node, list):
                for x in node: calls_and_throws(x, acc)
        info = {}
        for fd in defs:
            acc = {'throw': False, 'calls': []}
            body = fd.body
            if self._catches_all(body):
                info[fd] = {'throw': False, 'calls': []}
            else:
                calls_and_throws(body, acc)
                for (_, args) in fd.inits: calls_and_throws(args, acc)
                info[fd] = acc
        names_thr = set()
        changed = True
        while changed:
            changed = False
            for fd in defs:
                key = (fd.cls, fd.name)
                if key in names_thr: continue
                a = info[fd]
                t = a['throw']
                if not t:
                    for c in a['calls']:
                        if self._call_maythrow_syntactic(c, names_thr, fd):
                            t = True; break
                if t:
                    names_thr.add(key); changed = True
        self.throwing = names_thr
        return names_thr

    def _catches_all(self, body):
        # function body of the form { try {...} catch (...) {...} }
        if body[0] == 'block' and len(body[1]) == 1 and body[1][0][0] == 'try':
            return any(h[0] is None for h in body[1][0][2])
        return False

    ALLOC_METHODS = {'resize', 'push_back', 'push'}

    def _call_maythrow_syntactic(self, c, names_thr, fd):
        if c[0] == 'new': return True
        f = c[1]
        if f[0] == 'member':
            n = f[2]
            if n in self.ALLOC_METHODS: return True
            return any(k[1] == n for k in names_thr)   # by method name (virtual dispatch: any class)
        if f[0] == 'id':
            n = f[1]
            return any(k[1] == n for k in names_thr)
        if f[0] == 'qid':
            parts = f[1]
            q = '::'.join(parts)
            if q in ('std::make_shared', 'std::rethrow_exception'): return True
            if len(parts) == 2 and (parts[0], parts[1]) in names_thr: return True
            return False
        return False

    # ---------------------------------------------------------------- expression typing helpers
    def member_kind(self, ty):
        """classify a value type for method-call translation"""
        if ty is None: return None
        n = ty.name
        if n == 'T' and self.template_arg: n = self.template_arg
        if n in ('std::vector', 'std::string', 'std::u16string'): return 'vec'
        if n == 'std::array': return 'array'
        if n in ('std::shared_ptr', 'std::unique_ptr'): return 'sptr'
        if n == 'std::list': return 'list'
        if n == 'std::queue': return 'queue'
        if n == 'std::condition_variable': return 'cv'
        if n == 'std::thread': return 'thread'
        if n == 'std::fstream': return 'fstream'
        if n == 'std::mutex': return 'mutex'
        if n == 'std::atomic': return 'atomic'
        if n == 'std::exception_ptr': return 'excptr'
        if n in self.classes or n == 'ObjectQueue': return 'class'
        return 'scalar'

    def vec_elem(self, ty):
        if ty.name in VEC_ELEM: return SCALARS[VEC_ELEM[ty.name]]
        return self.ctype(ty.args[0])

    # ---------------------------------------------------------------- expressions
    def ex(self, e, cx):
        """-> (C text, Type or None)"""
        k = e[0]
        if k == 'num':
            return (e[1], None)
        if k == 'chr':
            return (e[1], Type('char'))
        if k == 'str':
            return (e[1], Type('char', ptr=1))
        if k == 'bool':
            return ('1' if e[1] == 'true' else '0', Type('bool'))
        if k == 'nullptr':
            return ('NULL', None)
        if k == 'this':
            return ('self', Type(cx.D, ptr=1))
        if k == 'paren':
            t, ty = self.ex(e[1], cx)
            return ('(' + t + ')', ty)
        if k == 'id':
            return self.ex_id(e[1], cx)
        if k == 'qid':
            r = self.resolve_const(e[1], cx.D)
            if r: return r
            if '::'.join(e[1]) in ('std::cerr', 'std::endl'): return ('VB_CERR', None)
            raise EmitError('%s: unresolved qualified name %s' % (cx.fname, '::'.join(e[1])))
        if k == 'member':
            ot, oty = self.ex(e[1], cx)
            if oty is None: raise EmitError('%s: member access .%s on untyped expression %s' % (cx.fname, e[2], ot))
            cname = self.class_of(oty)
            if cname is None: raise EmitError('%s: member access .%s on non-class %r' % (cx.fname, e[2], oty))
            is_ptr = e[3]
            r = self.lookup_member(cname, e[2])
            if r is None: raise EmitError('%s: no member %s in %s' % (cx.fname, e[2], cname))
            path, mty, owner = r
            if is_ptr and ot != 'self': self.note_touch(cx, path, mty, obj=ot, cls=cname)
            elif ot == 'self': self.note_touch(cx, path, mty)
            return ('%s%s%s' % (ot, '->' if is_ptr else '.', path), mty)
        if k == 'unop':
            mark = self.touch_mark(cx)
            t, ty = self.ex(e[2], cx)
            op = e[1]
            if op in ('&', '++', '--'): self.touch_writes(cx, mark)
            if op == '&':
                nty = Type(ty.name, ty.args, ty.ptr + 1, False, ty.const, ty.suffix) if ty else None
                return ('(&' + t + ')', nty)
            if op == '*':
                if ty is not None and self.member_kind(ty) == 'scalar' and ty.suffix is None and ty.ptr == 0 and ty.name == 'std::list':
                    pass
                if ty is not None and ty.name == 'std::list' and ty.suffix:
                    # *iterator of the list model
                    return ('VB_LIST_AT(%s, %s)' % (cx.iter_src.get(t, '?'), t), ty.args[0])
                return ('(*' + t + ')', ty.deref() if ty and ty.ptr else ty)
            if op in ('++', '--'):
                return ('(' + op + t + ')', ty)
            if op == '!' and ty is not None and self.member_kind(ty) == 'sptr':
                return ('(' + t + ' == NULL)', Type('bool'))
            rty = Type('bool') if op == '!' else ty
            return ('(' + op + t + ')', rty)
        if k == 'postop':
            mark = self.touch_mark(cx)
            t, ty = self.ex(e[2], cx)
            self.touch_writes(cx, mark)
            return ('(' + t + e[1] + ')', ty)
        if k == 'binop':
            a, aty = self.ex(e[2], cx)
            b, bty = self.ex(e[3], cx)
            op = e[1]
            if op == '<<' and (a.startswith('VB_CERR') or b.startswith('VB_CERR')):
                return ('VB_CERR', None)
            # iterator comparison against cend()
            rty = None
            if op in ('==', '!=', '<', '>', '<=', '>=', '&&', '||'): rty = Type('bool')
            elif aty is not None and aty.ptr: rty = aty
            elif aty is not None and bty is not None and aty.key() == bty.key(): rty = aty
            elif aty is not None and aty.name == 'std::list': rty = aty
            return ('(%s %s %s)' % (a, op, b), rty)
        if k == 'assign':
            return self.ex_assign(e, cx)
        if k == 'cond':
            c, _ = self.ex(e[1], cx); a, aty = self.ex(e[2], cx); b, bty = self.ex(e[3], cx)
            return ('(%s ? %s : %s)' % (c, a, b), aty or bty)
        if k == 'cast':
            t, ty = self.ex(e[3], cx)
            tty = e[2]
            return ('((%s)(%s))' % (self.ctype(tty), t), tty)
        if k == 'sizeof_type':
            return ('sizeof(%s)' % self.ctype(e[1]), Type('size_t'))
        if k == 'sizeof_expr':
            if cx.static and cx.D is not None and e[1][0] == 'id' and cx.local(e[1][1]) is None:
                r = self.lookup_member(cx.D, e[1][1])
                if r is not None:   # unevaluated use of a non-static member inside a static method
                    return ('sizeof(((struct %s *)0)->%s)' % (cx.D, r[0]), Type('size_t'))
            saved = (dict(cx.touch), list(cx.touch_log)) if getattr(cx, 'touch', None) is not None else None
            t, ty = self.ex(e[1], cx)
            if saved is not None: cx.touch, cx.touch_log = saved      # unevaluated operand: not an access
            return ('sizeof(%s)' % t, Type('size_t'))
        if k == 'index':
            a, aty = self.ex(e[1], cx); i, _ = self.ex(e[2], cx)
            if aty is not None and aty.name == 'std::array':
                return ('%s.e[%s]' % (a, i), aty.args[0])
            if aty is not None and self.member_kind(aty) == 'vec':
                return ('%s.data[%s]' % (a, i), Type(self.vec_elem(aty)))
            return ('%s[%s]' % (a, i), aty.deref() if aty and aty.ptr else None)
        if k == 'call':
            return self.ex_call(e, cx)
        if k == 'new':
            cname = self.class_of(e[1])
            if cname is None: raise EmitError('%s: new of non-class %r' % (cx.fname, e[1]))
            if e[2]: raise EmitError('%s: new with constructor arguments' % cx.fname)
            self.need_new.add(cname)
            self.request_ctor(cname)
            return ('%s_new()' % cname, Type(cname, ptr=1))
        if k == 'lambda':
            raise EmitError('%s: lambda outside wait/find_if' % cx.fname)
        raise EmitError('%s: expression kind %s' % (cx.fname, k))

    def ex_id(self, name, cx):
        ty = cx.local(name)
        if ty is not None:
            if ty.ref and self.passes_by_pointer(ty):
                return ('(*%s)' % name, ty.noref())
            return (name, ty.noref() if ty.ref else ty)
        if cx.D is not None and not cx.static:
            r = self.lookup_member(cx.D, name)
            if r is not None:
                path, mty, owner = r
                self.note_touch(cx, path, mty)
                return ('self->' + path, mty)
        r = self.resolve_const([name], cx.D)
        if r: return r
        for (gty, gname, ginit, gf, gl) in getattr(self.u, 'globals', []):
            if gname == name: return (name, gty)
        if name in ('Z_OK',): return (name, Type('int'))
        raise EmitError('%s: unresolved identifier %s' % (cx.fname, name))

    def passes_by_pointer(self, ty):
        """reference parameters become pointers, except shared_ptr (already a pointer in the model)"""
        if not ty.ref: return False
        if ty.name in ('std::shared_ptr',): return False
        return True

    def ex_assign(self, e, cx):
        op = e[1]
        mark = self.touch_mark(cx)
        lt, lty = self.ex(e[2], cx)
        self.touch_writes(cx, mark)
        rhs = e[3]
        if op == '=' and lty is not None and self.member_kind(lty) == 'vec' and lty.ptr == 0:
            rt, rty = self.ex(rhs, cx)
            if rty is None or self.member_kind(rty) != 'vec': raise EmitError('%s: vector assignment from non-vector' % cx.fname)
            cx.cur_maythrow = True
            sn = self.ctype(lty).replace('struct ', '')
            return ('%s_assign(&%s, &%s)' % (sn, lt, rt), None)
        if op == '=' and lty is not None and self.member_kind(lty) == 'thread':
            # m_thread = std::thread(fn, this)
            if rhs[0] == 'call' and rhs[1][0] == 'qid' and '::'.join(rhs[1][1]) == 'std::thread':
                fn = rhs[2][0]
                if fn[0] != 'id': raise EmitError('%s: std::thread entry must be a plain function name' % cx.fname)
                m = self.final_overrider(cx.D, fn[1])
                target = self.request(cx.D, m[0], m[1])
                self.thread_entries.setdefault(cx.D, {}).setdefault(lt.replace('self->', ''), [])
                if target not in self.thread_entries[cx.D][lt.replace('self->', '')]: self.thread_entries[cx.D][lt.replace('self->', '')].append(target)
                return ('VB_THREAD_START(&%s, %s, self)' % (lt, target), None)
            raise EmitError('%s: unsupported thread assignment' % cx.fname)
        if op == '=' and lty is not None and self.member_kind(lty) == 'excptr':
            if rhs[0] == 'call' and rhs[1][0] == 'qid' and '::'.join(rhs[1][1]) == 'std::current_exception':
                return ('%s = vb_caught' % lt, None)
        if op == '=' and lty is not None and self.member_kind(lty) == 'sptr' and lty.ptr == 0:
            rt, rty = self.ex(rhs, cx)
            own = rt if (rhs[0] == 'call' and not rt.startswith('VB_LIST')) or rt == 'NULL' else 'VB_SPTR_COPY(%s)' % rt
            return ('VB_SPTR_SET(%s, %s)' % (lt, own), lty)
        rt, rty = self.ex(rhs, cx)
        rt = self.coerce(rt, rty, lty, cx)
        return ('%s %s %s' % (lt, op, rt), lty)

    def coerce(self, text, from_ty, to_ty, cx):
        """pointer upcasts derived* -> base*"""
        if from_ty is None or to_ty is None: return text
        fc = self.class_of(from_ty); tc = self.class_of(to_ty)
        f_ptr = from_ty.ptr or from_ty.name in ('std::shared_ptr', 'std::unique_ptr')
        t_ptr = to_ty.ptr or to_ty.name in ('std::shared_ptr', 'std::unique_ptr')
        if fc and tc and fc != tc and f_ptr and t_ptr and self.derives_from(fc, tc):
            return 'VB_UPCAST(%s, %s)' % (text, self.base_path(fc, tc))
        return text

    def arg_for_param(self, arg_e, pty, cx):
        """emit argument for parameter of type pty (handles references and upcasts)"""
        t, ty = self.ex(arg_e, cx)
        if pty is not None and self.passes_by_pointer(pty):
            # need address of the object
            pc = self.class_of(pty)
            ac = self.class_of(ty) if ty else None
            addr = '(&%s)' % t
            if t.startswith('(*') and t.endswith(')') and t.count('(') == 1:
                addr = t[2:-1]
            if pc and ac and pc != ac and ty.ptr == 0:
                if not self.derives_from(ac, pc): raise EmitError('%s: cannot pass %s as %s' % (cx.fname, ac, pc))
                return '(&(%s)->%s)' % (addr, self.base_path(ac, pc))
            return addr
        return self.coerce(t, ty, pty, cx)

    def call_args(self, m, args, cx):
        params = m['params']
        out = []
        for i, p in enumerate(params):
            if i < len(args):
                out.append(self.arg_for_param(args[i], p[0], cx))
            else:
                if p[2] is None: raise EmitError('%s: missing argument %d for %s' % (cx.fname, i, m['name']))
                dcx = Ctx(self, None, None, cx.fname)
                out.append(self.ex(p[2], dcx)[0])
        if len(args) > len(params): raise EmitError('%s: too many arguments for %s' % (cx.fname, m['name']))
        return out

    def method_call(self, objtext, cname, exact, mname, args, cx, qualified_base=None):
        """call of method mname on an object of class cname.
           objtext: C expression of type 'struct cname *'
           exact:   dynamic type is known to be cname (value object / final class / this of a specialised copy)"""
        first_ty = None
        if args:
            try:
                first_ty = self.ex(args[0], cx)[1]
            except EmitError:
                first_ty = None
        if qualified_base is not None:
            # Base::m(...) from inside D: static call of the copy of Base::m specialised for D
            r = self.final_overrider(qualified_base, mname, len(args), first_ty)
            if r is None: raise EmitError('%s: no method %s::%s' % (cx.fname, qualified_base, mname))
            F, m = r
            fn = self.request(cname, F, m)
            a = self.call_args(m, args, cx)
            self.note_call(cx, fn, F, m)
            return ('%s(%s)' % (fn, ', '.join([self.self_for(objtext, cname, F, m)] + a)), m['ret'])
        r = self.final_overrider(cname, mname, len(args), first_ty)
        if r is None: raise EmitError('%s: no method %s in %s' % (cx.fname, mname, cname))
        F, m = r
        a = self.call_args(m, args, cx)
        virt = self.is_virtual(cname, mname) and not m.get('final')
        if m.get('static'):
            fn = self.request(cname, F, m)
            self.note_call(cx, fn, F, m)
            return ('%s(%s)' % (fn, ', '.join(a)), m['ret'])
        if virt and not exact:
            root = self.virtual_root(cname, mname)
            fn = '%s_v_%s' % (root, mname)
            self.dispatchers[(root, mname)] = m
            up = objtext if root == cname else 'VB_UPCAST(%s, %s)' % (objtext, self.base_path(cname, root))
            self.note_call(cx, fn, root, m, virtual=True)
            return ('%s(%s)' % (fn, ', '.join([up] + a)), m['ret'])
        if m.get('pure'):
            raise EmitError('%s: call of pure virtual %s::%s with exact type' % (cx.fname, cname, mname))
        fn = self.request(cname, F, m)
        self.note_call(cx, fn, F, m)
        return ('%s(%s)' % (fn, ', '.join([self.self_for(objtext, cname, F, m)] + a)), m['ret'])

    def self_for(self, objtext, D, F, m):
        """this-argument: the D object itself for a copy specialised for D, its F sub-object otherwise"""
        if D == F or self.needs_dyn(F, m): return objtext
        return '(&(%s)->%s)' % (objtext, self.base_path(D, F))

    def virtual_root(self, cname, mname):
        """top-most class in the first-base chain declaring mname"""
        root = cname
        for b in [cname] + self.all_bases(cname):
            if self.methods_named(b, mname): root = b
        return root

    def note_call(self, cx, fn, F, m, virtual=False):
        if m['name'] in self.throwing_names:
            cx.cur_maythrow = True
        cx.calls.add(fn)

    def is_exact(self, cname):
        """is a pointer/reference of static type cname known to point to exactly cname?"""
        c = self.cls(cname)
        return c.final or not self.subclasses.get(cname)

    def ex_call(self, e, cx):
        f = e[1]; args = e[2]
        if f[0] == 'member':
            obj_e, mname, arrow = f[1], f[2], f[3]
            if mname == 'wait_for' and len(args) == 3 and args[2][0] == 'lambda':
                # timed wait: true when the predicate holds, false on timeout (the duration itself is not modelled)
                self.ex(args[1], cx)
                cvt, call = self.lift_wait(e, cx, getattr(cx.fd, 'line', 0))
                self.dropped.add('the duration of condition_variable::wait_for')
                return ('VB_WAIT_FOR(&%s, %s)' % (cvt, call), Type('bool'))
            if obj_e[0] == 'id' and obj_e[1] in getattr(cx, 'lockvars', {}) and mname in ('lock', 'unlock') and not args:
                # std::unique_lock::unlock() / lock(): the critical section ends / resumes here
                return ('%s(&%s)' % ('VB_UNLOCK' if mname == 'unlock' else 'VB_LOCK', cx.lockvars[obj_e[1]]), None)
            mark = self.touch_mark(cx)
            ot, oty = self.ex(obj_e, cx)
            kind = self.member_kind(oty) if oty is not None else None
            if oty is not None and oty.ptr == 1 and arrow and self.member_kind(oty.deref()) in ('thread', 'vec', 'cv', 'fstream'):
                ot = '(*%s)' % ot; oty = oty.deref(); kind = self.member_kind(oty)
            if oty is not None and oty.ptr == 0 and kind != 'class' and kind != 'sptr':
                if mname not in self.READONLY_BUILTINS: self.touch_writes(cx, mark)
                return self.builtin_method(ot, oty, kind, mname, args, cx)
            if oty is not None and self.class_of(oty) is not None and not arrow and not oty.ptr:
                fo = self.final_overrider(self.class_of(oty), mname, len(args))
                if fo is None or not fo[1].get('const'): self.touch_writes(cx, mark)
            if kind == 'sptr' and not arrow:
                raise EmitError('%s: shared_ptr method .%s' % (cx.fname, mname))
            cname = self.class_of(oty)
            if cname is None: raise EmitError('%s: method .%s on %r' % (cx.fname, mname, oty))
            if arrow or (oty.ptr):
                objtext = ot
                exact = self.is_exact(cname)
            else:
                objtext = '(&%s)' % ot
                if ot.startswith('(*') and ot.endswith(')') and ot.count('(') == 1:
                    objtext = ot[2:-1]
                # value object (member / local) is exact; reference parameter is not
                is_ref = obj_e[0] == 'id' and cx.local(obj_e[1]) is not None and cx.local(obj_e[1]).ref
                exact = (not is_ref) or self.is_exact(cname)
            if cname == 'ObjectQueue':
                cname = 'ObjectQueue'
            return self.method_call(objtext, cname, exact, mname, args, cx)
        if f[0] == 'id':
            name = f[1]
            if name == 'Exception':
                return ('VB_EXC_BLF', Type('Exception'))
            if name in ('UINT64_C', 'UINT32_C', 'INT64_C', 'INT32_C', 'UINT16_C', 'UINT8_C') and len(args) == 1:
                return ('%s(%s)' % (name, self.ex(args[0], cx)[0]), Type({'UINT64_C': 'uint64_t', 'UINT32_C': 'uint32_t', 'INT64_C': 'int64_t', 'INT32_C': 'int32_t', 'UINT16_C': 'uint16_t', 'UINT8_C': 'uint8_t'}[name]))
            if name in ('compressBound', 'uncompress', 'compress2', 'compress'):
                a = [self.ex(x, cx)[0] for x in args]
                rty = Type('uLong') if name == 'compressBound' else Type('int')
                cx.calls.add('vb_zlib_' + name)
                return ('vb_zlib_%s(%s)' % (name, ', '.join(a)), rty)
            if cx.D is not None and self.final_overrider(cx.D, name, len(args)) is not None:
                r = self.final_overrider(cx.D, name, len(args))
                if r[1].get('static') or cx.static:
                    return self.method_call(None, cx.D, True, name, args, cx)
                return self.method_call('self', cx.D, cx.exact, name, args, cx)
            raise EmitError('%s: call of unknown function %s' % (cx.fname, name))
        if f[0] == 'qid':
            parts = f[1]; q = '::'.join(parts)
            if q in ('std::min', 'std::max'):
                a, aty = self.ex(args[0], cx); b, bty = self.ex(args[1], cx)
                if f[2]:
                    ct = self.ctype(f[2][0])
                    a = '((%s)(%s))' % (ct, a); b = '((%s)(%s))' % (ct, b); aty = f[2][0]
                return ('%s(%s, %s)' % ('VB_MIN' if q == 'std::min' else 'VB_MAX', a, b), aty or bty)
            if q == 'std::numeric_limits' or (parts[:2] == ['std', 'numeric_limits']):
                ty = f[2][0]
                if parts[-1] != 'max': raise EmitError('numeric_limits::%s' % parts[-1])
                return ('VB_MAX_' + sanitize(self.ctype(ty)), ty)
            if q in ('std::memcpy', 'memcpy'):
                a = []
                for x in args:
                    t, ty = self.ex(x, cx)
                    if ty is not None and ty.name == 'std::array' and not ty.ptr: t += '.e'
                    a.append(t)
                cx.calls.add('memcpy')
                return ('memcpy(%s, %s, %s)' % tuple(a), None)
            if q == 'std::copy':
                a = [self.ex(x, cx)[0] for x in args]
                cx.calls.add('VB_COPY')
                return ('VB_COPY(%s, %s, %s)' % (a[2], a[0], a[1]), None)
            if q == 'std::make_shared':
                cname = self.class_of(f[2][0])
                self.need_new.add(cname); self.request_ctor(cname)
                cx.cur_maythrow = True
                return ('%s_new()' % cname, Type('std::shared_ptr', [Type(cname)]))
            if q == 'std::rethrow_exception':
                a = self.ex(args[0], cx)[0]
                cx.cur_maythrow = True
                return ('(vb_exc = %s)' % a, None)
            if q == 'std::current_exception':
                return ('vb_caught', Type('std::exception_ptr'))
            if len(parts) == 2 and parts[0] in self.classes and cx.D is not None and self.derives_from(cx.D, parts[0]):
                return self.method_call('self', cx.D, True, parts[1], args, cx, qualified_base=parts[0])
            if len(parts) >= 2 and parts[-2] in self.classes and parts[-1] == 'Exception':
                return ('VB_EXC_BLF', Type('Exception'))
            raise EmitError('%s: call of %s' % (cx.fname, q))
        raise EmitError('%s: call through expression' % cx.fname)

    def builtin_method(self, ot, oty, kind, mname, args, cx):
        a = [self.ex(x, cx)[0] for x in args]
        if oty.name in ('std::exception', 'std::runtime_error') and mname == 'what':
            return ('VB_CERR_WHAT', Type('char', ptr=1))
        if kind == 'vec':
            el = self.vec_elem(oty)
            sn = self.ctype(oty).replace('struct ', '')
            if mname == 'size' and not a: return ('%s.size' % ot, Type('size_t'))
            if mname == 'data' and not a: return ('%s.data' % ot, Type(self._elem_type_name(oty), ptr=1))
            if mname == 'empty' and not a: return ('(%s.size == 0)' % ot, Type('bool'))
            if mname == 'clear' and not a:
                return ('%s_resize(&%s, 0)' % (sn, ot), None)
            if mname == 'resize' and len(a) == 1:
                cx.cur_maythrow = True
                return ('%s_resize(&%s, %s)' % (sn, ot, a[0]), None)
            if mname in ('begin', 'cbegin') and not a: return ('%s.data' % ot, Type(self._elem_type_name(oty), ptr=1))
            if mname == 'c_str' and not a: return ('%s.data' % ot, Type('char', ptr=1))
        if kind == 'array':
            if mname == 'size' and not a: return ('((size_t)%d)' % oty.args[1], Type('size_t'))
            if mname == 'data' and not a: return ('%s.e' % ot, Type(oty.args[0].name, ptr=1))
            if mname == 'fill' and len(a) == 1:
                if a[0].strip('()') in ('0', '0u', '0U', "'\\0'"): return ('memset(&%s, 0, sizeof(%s))' % (ot, ot), None)
                return ('VB_ARRAY_FILL(%s, %d, %s)' % (ot, oty.args[1], a[0]), None)
        if kind == 'list':
            it = Type('std::list', oty.args, suffix='const_iterator')
            if mname == 'empty' and not a: return ('VB_LIST_EMPTY(%s)' % ot, Type('bool'))
            if mname == 'size' and not a: return ('VB_LIST_SIZE(%s)' % ot, Type('size_t'))
            if mname == 'front' and not a: return ('VB_LIST_FRONT(%s)' % ot, oty.args[0])
            if mname == 'back' and not a: return ('VB_LIST_BACK(%s)' % ot, oty.args[0])
            if mname == 'push_back' and len(a) == 1:
                cx.cur_maythrow = True
                return ('VB_LIST_PUSH_BACK(%s, %s)' % (ot, a[0]), None)
            if mname == 'pop_front' and not a: return ('VB_LIST_POP_FRONT(%s)' % ot, None)
            if mname in ('cbegin', 'begin') and not a: return ('VB_LIST_BEGIN(%s)' % ot, it)
            if mname in ('cend', 'end') and not a: return ('VB_LIST_END(%s)' % ot, it)
        if kind == 'queue':
            if mname == 'empty' and not a: return ('VB_QUEUE_EMPTY(%s)' % ot, Type('bool'))
            if mname == 'front' and not a: return ('VB_QUEUE_FRONT(%s)' % ot, oty.args[0])
            if mname == 'pop' and not a: return ('VB_QUEUE_POP(%s)' % ot, None)
            if mname == 'size' and not a: return ('VB_QUEUE_SIZE(%s)' % ot, Type('size_t'))
            if mname == 'push' and len(a) == 1:
                cx.cur_maythrow = True
                return ('VB_QUEUE_PUSH(%s, %s)' % (ot, a[0]), None)
        if kind == 'cv':
            if mname == 'notify_all' and not a: return ('VB_NOTIFY(&%s)' % ot, None)
        if kind == 'thread':
            if mname == 'joinable' and not a: return ('VB_THREAD_JOINABLE(&%s)' % ot, Type('bool'))
            if mname == 'join' and not a: return ('VB_THREAD_JOIN(&%s)' % ot, None)
        if kind == 'fstream':
            rty = {'gcount': Type('std::streamsize'), 'tellg': Type('std::streampos'), 'tellp': Type('std::streampos'),
                   'good': Type('bool'), 'eof': Type('bool'), 'is_open': Type('bool')}.get(mname)
            if mname in ('gcount', 'read', 'tellg', 'seekg', 'write', 'tellp', 'good', 'eof', 'open', 'is_open', 'close', 'seekp'):
                cx.calls.add('vb_fstream_' + mname)
                return ('vb_fstream_%s(%s)' % (mname, ', '.join(['&' + ot] + a)), rty)
        raise EmitError('%s: unsupported %s method .%s/%d' % (cx.fname, kind, mname, len(a)))

    def _elem_type_name(self, ty):
        if ty.name in VEC_ELEM: return VEC_ELEM[ty.name]
        return ty.args[0].name

    # ---------------------------------------------------------------- statements
    def default_value(self, ty):
        if ty is None or ty.name == 'void' and not ty.ptr: return ''
        if ty.ptr or ty.name in ('std::shared_ptr',): return 'NULL'
        return '0'

    def exc_action(self, cx):
        """what to do when vb_exc is set after a call: unwind to innermost try or return"""
        if cx.try_stack:
            label, depth = cx.try_stack[-1]
            d = self.dtor_calls(cx, from_depth=depth)
            return '{ %sgoto %s; }' % (d, label)
        d = self.dtor_calls(cx, from_depth=1)
        dv = self.default_value(cx.ret)
        return '{ %sreturn%s; }' % (d, (' ' + dv) if dv else '')

    def dtor_calls(self, cx, from_depth):
        out = ''
        for depth in range(len(cx.cleanup) - 1, from_depth - 1, -1):
            for c in reversed(cx.cleanup[depth]):
                out += c + ' '
        return out

    READONLY_BUILTINS = ('size', 'empty', 'begin', 'cbegin', 'end', 'cend', 'c_str', 'front', 'back', 'length', 'joinable')
    SYNC_TYPES = ('std::mutex', 'std::condition_variable', 'std::atomic', 'std::thread')

    def touch_class(self, D):
        """classes whose member accesses get a VB_TOUCH hook: those that own a mutex or a thread"""
        if D not in self._touch_cache:
            c = self.classes.get(D)
            self._touch_cache[D] = bool(c) and any(ty.name in ('std::mutex', 'std::thread') for (ty, n, init, line) in c.members)
        return self._touch_cache[D]

    def note_touch(self, cx, path, mty, obj='self', cls=None):
        cls = cls or cx.D
        if getattr(cx, 'touch', None) is None or not self.touch_class(cls): return
        if mty.name in self.SYNC_TYPES: return
        t = (obj, cls, path.replace('.', '_'))
        cx.touch.setdefault(t, 'r')
        cx.touch_log.append(t)

    def touch_mark(self, cx):
        return len(cx.touch_log) if getattr(cx, 'touch', None) is not None else 0

    def touch_writes(self, cx, mark):
        """the members named since mark are written (assignment target, ++/--, address taken, non-const method)"""
        if getattr(cx, 'touch', None) is None: return
        for t in cx.touch_log[mark:]: cx.touch[t] = 'w'

    def stmt(self, s, cx, ind):
        """statement + the VB_TOUCH hooks of the members its own expressions name (nested statements carry theirs)"""
        if s[0] == 'block' or getattr(cx, 'no_touch', False) or not (cx.D and self.touch_class(cx.D)):
            return self.stmt1(s, cx, ind)
        saved = (getattr(cx, 'touch', None), getattr(cx, 'touch_log', None))
        cx.touch = {}; cx.touch_log = []
        text = self.stmt1(s, cx, ind)
        own = cx.touch
        cx.touch, cx.touch_log = saved
        pad = '    ' * ind
        hooks = ''.join(pad + '%s(%s, %s, %s);\n' % (('VB_TOUCH_W' if mode == 'w' else 'VB_TOUCH',) + t) for t, mode in own.items())
        for t, mode in own.items():
            self.touched.add((t[1], t[2]))
            if not hasattr(cx, 'fn_touches'): cx.fn_touches = set()
            cx.fn_touches.add((t[1], t[2], mode))
        return hooks + text

    def stmt1(self, s, cx, ind):
        k = s[0]
        pad = '    ' * ind
        if k == 'block':
            return self.block(s, cx, ind)
        if k == 'empty':
            return pad + ';\n'
        if k == 'pp':
            raise EmitError('%s: stray preprocessor line %s' % (cx.fname, s[1]))
        if k == 'expr':
            return self.expr_stmt(s[1], cx, ind, s[2])
        if k == 'decl':
            return self.decl_stmt(s, cx, ind)
        if k == 'arraydecl':
            _, ty, name, dim, init, line = s
            d, _ = self.ex(dim, cx)
            aty = Type(ty.name, ty.args, ty.ptr + 1, False, ty.const, ty.suffix)
            aty.is_array = True
            cx.declare(name, aty)
            out = pad + '%s %s[%s];\n' % (self.ctype(ty), name, d)
            if init is not None:
                out += pad + 'memset(%s, 0, sizeof(%s));\n' % (name, name)
                for i, e in enumerate(init):
                    out += pad + '%s[%d] = %s;\n' % (name, i, self.ex(e, cx)[0])
            return out
        if k == 'rangefor':
            # for (T x : {a, b, c}) body  ->  one copy of the body per element, in order
            _, rty, rname, elems, body, line = s
            def has_jump(n):
                if isinstance(n, tuple):
                    if n and n[0] in ('break', 'continue'): return True
                    return any(has_jump(x) for x in n)
                if isinstance(n, list): return any(has_jump(x) for x in n)
                return False
            if has_jump(body): raise EmitError('%s:%d: break/continue inside a range-based for over a braced list' % (cx.fname, line))
            out = ''
            for e in elems:
                cx.push(); cx.cleanup.append([])
                cx.declare(rname, rty)
                out += pad + '{\n' + pad + '    %s %s = %s;\n' % (self.ctype(rty), rname, self.ex(e, cx)[0])
                out += self.stmt(body, cx, ind + 1)
                out += pad + '}\n'
                cx.cleanup.pop(); cx.pop()
            self.dropped.add('range-based for over a braced list (unrolled)')
            return out
        if k == 'for':
            _, init, cond, step, body, line = s
            cx.push(); cx.cleanup.append([])
            out = pad + '{\n'
            if init is not None: out += self.stmt(init, cx, ind + 1)
            cx.cur_maythrow = False
            c = self.ex(cond, cx)[0] if cond is not None else '1'
            st = self.ex(step, cx)[0] if step is not None else ''
            if cx.cur_maythrow: raise EmitError('%s:%d: may-throw call in for header' % (cx.fname, line))
            cx.loop_no += 1
            hook = 'LOOP_%s_%d' % (cx.cname, cx.loop_no)
            cx.loops.append(hook)
            out += pad + '    for (; %s; %s)\n' % (c, st) + pad + '    ' + hook + '\n' + self.as_block(body, cx, ind + 1)
            cx.cleanup.pop(); cx.pop()
            return out + pad + '}\n'
        if k == 'dowhile':
            _, cond, body, line = s
            cx.loop_no += 1
            hook = 'LOOP_%s_%d' % (cx.cname, cx.loop_no)
            cx.loops.append(hook)
            b = self.as_block(body, cx, ind)
            cx.cur_maythrow = False
            c = self.ex(cond, cx)[0]
            if cx.cur_maythrow: raise EmitError('%s:%d: may-throw call in loop condition' % (cx.fname, line))
            return pad + 'do\n' + pad + hook + '\n' + b + pad + 'while (%s);\n' % c
        if k == 'continue':
            return pad + 'continue;\n'
        if k == 'if':
            cx.cur_maythrow = False
            c, cty = self.ex(s[1], cx)
            if cty is not None and self.member_kind(cty) == 'sptr' and cty.ptr == 0:
                c = '(%s != NULL)' % c
            pre = ''
            if cx.cur_maythrow:
                cx.tmp_no += 1
                tv = 'vb_c%d' % cx.tmp_no
                pre = pad + '_Bool %s = %s;\n' % (tv, c) + pad + 'if (vb_exc) %s\n' % self.exc_action(cx)
                c = tv
            out = pre + pad + 'if (%s)\n' % c + self.as_block(s[2], cx, ind)
            if s[3] is not None:
                out += pad + 'else\n' + self.as_block(s[3], cx, ind)
            return out
        if k == 'while':
            cx.cur_maythrow = False
            c, _ = self.ex(s[1], cx)
            if cx.cur_maythrow: raise EmitError('%s:%d: may-throw call in loop condition' % (cx.fname, s[3]))
            cx.loop_no += 1
            hook = 'LOOP_%s_%d' % (cx.cname, cx.loop_no)
            cx.loops.append(hook)
            return pad + 'while (%s)\n' % c + pad + hook + '\n' + self.as_block(s[2], cx, ind)
        if k == 'switch':
            e, _ = self.ex(s[1], cx)
            out = pad + 'switch (%s) {\n' % e
            cx.push(); cx.cleanup.append([])
            for st in s[2][1]:
                if st[0] == 'case':
                    v, _ = self.ex(st[1], cx)
                    out += pad + 'case %s:\n' % v
                elif st[0] == 'default':
                    out += pad + 'default:\n'
                else:
                    out += self.stmt(st, cx, ind + 1)
            cx.cleanup.pop(); cx.pop()
            return out + pad + '}\n'
        if k == 'break':
            return pad + 'break;\n'
        if k == 'return':
            d = self.dtor_calls(cx, from_depth=1)
            if s[1] is None:
                return pad + '{ %sreturn; }\n' % d
            cx.cur_maythrow = False
            t, ty = self.ex(s[1], cx)
            t = self.coerce(t, ty, cx.ret, cx)
            if cx.ret is not None and self.member_kind(cx.ret) == 'sptr' and t != 'NULL':
                t = 'VB_SPTR_COPY(%s)' % t
            if d:
                return pad + '{ %s vb_r = %s; %sreturn vb_r; }\n' % (self.ctype(cx.ret), t, d)
            return pad + 'return %s;\n' % t
        if k == 'try':
            return self.try_stmt(s, cx, ind)
        raise EmitError('%s: statement kind %s' % (cx.fname, k))

    def as_block(self, s, cx, ind):
        if s[0] == 'block': return self.block(s, cx, ind)
        return self.block(('block', [s]), cx, ind)

    def block(self, s, cx, ind):
        pad = '    ' * ind
        out = pad + '{\n'
        cx.push(); cx.cleanup.append([])
        stmts = s[1]
        i = 0
        while i < len(stmts):
            st = stmts[i]
            if st[0] == 'pp':
                parts = st[1].replace('#', '# ').split()
                if parts[1] == 'ifdef' and parts[2] in self.file_undefs.get(cx.fd.file, ()):
                    # block compiled out: the macro is #undef'ed in this very file
                    j = i + 1
                    while j < len(stmts) and not (stmts[j][0] == 'pp' and stmts[j][1].replace('#', '# ').split()[1] == 'endif'):
                        if stmts[j][0] == 'pp': raise EmitError('%s: nested preprocessor conditional' % cx.fname)
                        j += 1
                    if j == len(stmts): raise EmitError('%s: unterminated #ifdef' % cx.fname)
                    self.dropped.add('#ifdef %s block (macro is #undef-ed in the same file)' % parts[2])
                    i = j + 1; continue
                raise EmitError('%s:%d: preprocessor conditional %s' % (cx.fname, st[2], st[1]))
            out += self.stmt(st, cx, ind + 1)
            i += 1
        last = stmts[-1][0] if stmts else None
        if last not in ('return', 'break'):
            for c in reversed(cx.cleanup[-1]):
                out += pad + '    ' + c + '\n'
        cx.cleanup.pop(); cx.pop()
        return out + pad + '}\n'

    def try_stmt(self, s, cx, ind):
        pad = '    ' * ind
        cx.label_no += 1
        label = 'vb_catch_%d' % cx.label_no
        cx.try_stack.append((label, len(cx.cleanup)))
        body = self.block(s[1], cx, ind)
        cx.try_stack.pop()
        out = body + pad + label + ':;\n'
        first = True
        for (cty, cname, hb) in s[2]:
            if cty is None:
                cond = 'vb_exc'
            else:
                n = cty.name
                if n.endswith('Exception') and not n.startswith('std::'):
                    cond = 'vb_exc == VB_EXC_BLF'
                elif n in ('std::exception', 'std::runtime_error'):
                    cond = 'vb_exc'
                else:
                    raise EmitError('%s: catch type %s' % (cx.fname, n))
            out += pad + ('if' if first else 'else if') + ' (%s)\n' % cond
            out += pad + '{\n' + pad + '    vb_caught = vb_exc; vb_exc = 0;\n'
            cx.push()
            if cname: cx.declare(cname, cty.noref())
            out += self.block(hb, cx, ind + 1)
            cx.pop()
            out += pad + '}\n'
            first = False
        out += pad + 'if (vb_exc) %s\n' % self.exc_action(cx)
        return out

    def lift_wait(self, e, cx, line):
        """condition_variable::wait / wait_for with a predicate lambda: the predicate becomes a function of its own
           (self + the captured locals); -> (C text of the condition variable, C text of the predicate call)"""
        cvt, cvty = self.ex(e[1][1], cx)
        if self.member_kind(cvty) != 'cv': raise EmitError('%s: wait on non condition_variable' % cx.fname)
        lam = e[2][-1]
        body = lam[3][1]
        if lam[2] or len(body) != 1 or body[0][0] != 'return':
            raise EmitError('%s:%d: wait predicate must be a single return expression' % (cx.fname, line))
        pe = body[0][1]
        free = self.free_locals(pe, cx)
        cx.wait_no += 1
        pname = '%s__waitpred%s' % (cx.cname, '' if cx.wait_no == 1 else str(cx.wait_no))
        pcx = Ctx(self, cx.D, cx.fd, pname)
        pcx.cname = pname; pcx.exact = cx.exact; pcx.calls = set(); pcx.loops = []; pcx.cleanup = [[]]
        pcx.cur_maythrow = False; pcx.wait_no = 0; pcx.iter_src = {}
        # the predicate runs inside the wait statement (with the lock held): its member accesses belong to that statement
        pcx.touch = getattr(cx, 'touch', None); pcx.touch_log = getattr(cx, 'touch_log', None)
        params = ['struct %s *self' % cx.D]
        for n in free:
            pcx.declare(n, cx.local(n).noref())
            params.append('%s %s' % (self.ctype(cx.local(n)), n))
        pt, _ = self.ex(pe, pcx)
        proto = '_Bool %s(%s)' % (pname, ', '.join(params))
        text = self.hook(pname) + proto + '\nCONTRACT_%s\n{\n    return %s;\n}\n' % (pname, pt)
        self.add_function(pname, proto, text, cx.D, dict(kind='waitpred', of=cx.cname, file=cx.fd.file, line=line))
        cx.calls.add(pname)
        return cvt, '%s(%s)' % (pname, ', '.join(['self'] + free))

    def expr_stmt(self, e, cx, ind, line):
        pad = '    ' * ind
        # cv.wait(lock, [&]{ return P; })
        if e[0] == 'call' and e[1][0] == 'member' and e[1][2] == 'wait' and len(e[2]) == 2 and e[2][1][0] == 'lambda':
            cvt, call = self.lift_wait(e, cx, line)
            return pad + 'VB_WAIT(&%s, %s);\n' % (cvt, call)
        if e[0] == 'throw':
            if e[1] is None:
                t = 'vb_caught'        # 'throw;' re-raises the exception the enclosing handler caught
            else:
                t, _ = self.ex(e[1], cx)
            return pad + '{ vb_exc = %s; %s }\n' % (t, self.exc_action(cx)[1:-1].strip())
        if e[0] == 'delete':
            t, ty = self.ex(e[1], cx)
            cname = self.class_of(ty)
            if cname is None: raise EmitError('%s: delete of %r' % (cx.fname, ty))
            if self.is_exact(cname):
                self.need_new.add(cname)
                return pad + '%s_delete(%s);\n' % (cname, t)
            root = self.root_of(cname)
            self.dispatchers[(root, '~')] = dict(name='~', ret=Type('void'), params=[])
            cx.calls.add('%s_v_delete' % root)
            return pad + '%s_v_delete(%s);\n' % (root, t)
        cx.cur_maythrow = False
        t, ty = self.ex(e, cx)
        if t.startswith('VB_CERR'):
            self.dropped.add('std::cerr output')
            return pad + '/* std::cerr output dropped */;\n'
        out = pad + t + ';\n'
        if cx.cur_maythrow:
            out += pad + 'if (vb_exc) %s\n' % self.exc_action(cx)
        # ghost mark: end of the header written by a header base class
        if (e[0] == 'call' and e[1][0] == 'qid' and len(e[1][1]) == 2 and e[1][1][1] == 'write'
                and e[1][1][0] in self.classes and 'ObjectHeaderBase' in self.classes
                and self.derives_from(e[1][1][0], 'ObjectHeaderBase') and len(e[2]) == 1 and e[2][0][0] == 'id'):
            out += pad + 'VB_MARK_HDR_END(%s);\n' % e[2][0][1]
        return out

    def free_locals(self, e, cx):
        found = []
        def walk(n):
            if isinstance(n, tuple):
                if n and n[0] == 'id' and cx.local(n[1]) is not None and n[1] not in found:
                    found.append(n[1])
                if n and n[0] == 'member':
                    walk(n[1]); return
                for x in n[1:]: walk(x)
            elif isinstance(n, list):
                for x in n: walk(x)
        walk(e)
        return found

    def decl_stmt(self, s, cx, ind):
        pad = '    ' * ind
        _, ty, name, ikind, init, line = s
        n = ty.name
        cx.cur_maythrow = False
        if n in ('std::lock_guard', 'std::unique_lock'):
            if ikind != 'ctor' or len(init) != 1: raise EmitError('%s: lock declaration' % cx.fname)
            m, _ = self.ex(init[0], cx)
            cx.declare(name, ty)
            cx.locks.append(m)
            if not hasattr(cx, 'lockvars'): cx.lockvars = {}
            cx.lockvars[name] = m
            cx.cleanup[-1].append('VB_UNLOCK(&%s);' % m)
            return pad + 'VB_LOCK(&%s);\n' % m
        kind = self.member_kind(ty)
        if n == 'std::list' and ty.suffix:
            # iterator = std::find_if(first, last, predicate)  -> explicit search loop over the list model
            if ikind == 'copy' and init[0] == 'call' and init[1][0] == 'qid' and '::'.join(init[1][1]) == 'std::find_if':
                return self.find_if(s, cx, ind)
            raise EmitError('%s:%d: iterator declaration outside find_if' % (cx.fname, line))
        if kind == 'sptr':
            cx.declare(name, ty)
            cty = self.ctype(ty)
            if ikind == 'ctor':
                if len(init) != 1: raise EmitError('%s: shared_ptr ctor' % cx.fname)
                t, ity = self.ex(init[0], cx)
                own = 'VB_SPTR_ADOPT(%s)' % t
            elif ikind == 'copy':
                t, ity = self.ex(init, cx)
                # a call returns an owned reference; anything else is a copy
                own = t if (init[0] == 'call' and not t.startswith('VB_LIST')) else 'VB_SPTR_COPY(%s)' % t
            else:
                own = 'NULL'
            out = pad + '%s%s = %s;\n' % (cty, name, own)
            if cx.cur_maythrow: out += pad + 'if (vb_exc) %s\n' % self.exc_action(cx)
            cx.cleanup[-1].append('VB_SPTR_RELEASE(%s);' % name)
            return out
        if kind == 'vec':
            if ikind is not None: raise EmitError('%s: vector local with initialiser' % cx.fname)
            cx.declare(name, ty)
            sn = self.ctype(ty).replace('struct ', '')
            cx.cleanup[-1].append('%s_free(&%s);' % (sn, name))
            return pad + '%s %s; %s_init(&%s);\n' % (self.ctype(ty), name, sn, name)
        if kind == 'class' and ty.ptr == 0:
            cname = self.class_of(ty)
            cx.declare(name, ty)
            args = init if ikind in ('ctor', 'brace') else []
            if ikind == 'copy': raise EmitError('%s: class local copy-initialised' % cx.fname)
            ctor = self.request_ctor(cname, len(args))
            a = self.ctor_args(cname, args, cx)
            out = pad + 'struct %s %s; %s(%s);\n' % (cname, name, ctor, ', '.join(['&' + name] + a))
            if self.has_nontrivial_dtor(cname):
                d = self.request_dtor(cname)
                cx.cleanup[-1].append('%s(&%s);' % (d, name))
            if self.ctor_maythrow(cname): out += pad + 'if (vb_exc) %s\n' % self.exc_action(cx)
            return out
        # scalar / pointer
        cx.declare(name, ty)
        cty = self.ctype(ty)
        if ikind is None:
            return pad + '%s %s;\n' % (cty, name)
        if ikind == 'copy':
            t, ity = self.ex(init, cx)
            t = self.coerce(t, ity, ty, cx)
        elif ikind in ('ctor', 'brace'):
            if len(init) == 0: t = '0'
            elif len(init) == 1: t = self.ex(init[0], cx)[0]
            else: raise EmitError('%s: scalar with several initialisers' % cx.fname)
        out = pad + '%s %s = %s;\n' % (cty, name, t)
        if cx.cur_maythrow: out += pad + 'if (vb_exc) %s\n' % self.exc_action(cx)
        return out

    def find_if(self, s, cx, ind):
        pad = '    ' * ind
        _, ty, name, ikind, init, line = s
        args = init[2]
        if len(args) != 3 or args[2][0] != 'lambda': raise EmitError('%s: find_if shape' % cx.fname)
        b = args[0]; e = args[1]
        if not (b[0] == 'call' and b[1][0] == 'member' and b[1][2] in ('cbegin', 'begin') and
                e[0] == 'call' and e[1][0] == 'member' and e[1][2] in ('cend', 'end')):
            raise EmitError('%s: find_if range must be x.cbegin(), x.cend()' % cx.fname)
        lt, lty = self.ex(b[1][1], cx)
        lt2, _ = self.ex(e[1][1], cx)
        if lt != lt2: raise EmitError('%s: find_if over two different containers' % cx.fname)
        lam = args[2]
        if len(lam[2]) != 1: raise EmitError('%s: find_if predicate arity' % cx.fname)
        pty, pname, _ = lam[2][0]
        body = lam[3][1]
        if len(body) != 1 or body[0][0] != 'return': raise EmitError('%s: find_if predicate must be one return' % cx.fname)
        cx.declare(name, ty)
        cx.iter_src[name] = lt
        cx.loop_no += 1
        hook = 'LOOP_%s_%d' % (cx.cname, cx.loop_no)
        cx.loops.append(hook)
        cx.push()
        cx.declare(pname, pty)
        pt, _ = self.ex(body[0][1], cx)
        cx.pop()
        out = pad + 'size_t %s = VB_LIST_BEGIN(%s);\n' % (name, lt)
        out += pad + 'while (%s != VB_LIST_END(%s))\n' % (name, lt) + pad + hook + '\n' + pad + '{\n'
        out += pad + '    %s%s = VB_LIST_AT(%s, %s);\n' % (self.ctype(pty), pname, lt, name)
        out += pad + '    if (%s) break;\n' % pt
        out += pad + '    %s++;\n' % name + pad + '}\n'
        self.dropped.add('std::find_if expanded to a first-match search loop over the list model')
        return out

    # ---------------------------------------------------------------- constructors / destructors
    def user_ctor(self, cname, nargs=None):
        c = self.cls(cname)
        cands = [m for m in c.methods if m['name'] == cname and m.get('special') is None]
        # skip copy/move ctors
        cands = [m for m in cands if not (len(m['params']) == 1 and m['params'][0][0].name == cname)]
        if nargs is not None:
            ok = []
            for m in cands:
                req = sum(1 for p in m['params'] if p[2] is None)
                if req <= nargs <= len(m['params']): ok.append(m)
            cands = ok
        return cands[0] if cands else None

    def has_user_provided_default_ctor(self, cname):
        return self.user_ctor(cname, 0) is not None

    def request_ctor(self, cname, nargs=0):
        n = '%s_ctor' % cname
        if getattr(self, 'cur_cx', None) is not None: self.cur_cx.calls.add(n)
        if n not in self.emitted and n not in [w[0] for w in self.worklist]:
            self.worklist.append((n, cname, cname, 'ctor'))
        return n

    def request_dtor(self, cname):
        n = '%s_dtor' % cname
        if getattr(self, 'cur_cx', None) is not None: self.cur_cx.calls.add(n)
        if n not in self.emitted and n not in [w[0] for w in self.worklist]:
            self.worklist.append((n, cname, cname, 'dtor'))
        return n

    def ctor_args(self, cname, args, cx):
        m = self.user_ctor(cname, len(args))
        if m is None:
            if args: raise EmitError('%s: no constructor %s/%d' % (cx.fname, cname, len(args)))
            return []
        return self.call_args(m, args, cx)

    def ctor_maythrow(self, cname):
        return False

    def has_nontrivial_dtor(self, cname):
        c = self.cls(cname)
        if self.funcs.get((cname, '~')): return True
        for (ty, n, init, line) in c.members:
            k = self.member_kind(ty)
            if k in ('vec', 'list', 'queue', 'sptr', 'thread', 'fstream'): return True
            if k == 'class' and ty.ptr == 0 and self.has_nontrivial_dtor(self.class_of(ty)): return True
        return any(self.has_nontrivial_dtor(b) for b in c.bases if b in self.classes)

    def zero_init_text(self, lv, ty):
        return 'memset(&%s, 0, sizeof(%s));' % (lv, lv)

    def member_init(self, lv, ty, init, cx):
        """default member initialiser / default-initialisation of one member; returns C statements"""
        k = self.member_kind(ty)
        if ty.ptr:
            if init is None: return '/* %s: no initialiser, indeterminate */' % lv
            args = init[1]
            return '%s = %s;' % (lv, self.ex(args[0], cx)[0] if args else 'NULL')
        if k == 'vec':
            sn = self.ctype(ty).replace('struct ', '')
            if init is not None and init[1]: raise EmitError('vector member with non-empty initialiser')
            return '%s_init(&%s);' % (sn, lv)
        if k == 'array':
            if init is None: return '/* %s: no initialiser, indeterminate */' % lv
            if init[1]: raise EmitError('array member with non-empty initialiser')
            return 'memset(&%s, 0, sizeof(%s));' % (lv, lv)
        if k == 'class':
            cname = self.class_of(ty)
            out = ''
            if init is not None and not self.has_user_provided_default_ctor(cname):
                if init[1]: raise EmitError('class member with non-empty brace initialiser')
                out += 'memset(&%s, 0, sizeof(%s)); ' % (lv, lv)   # value-initialisation
            ctor = self.request_ctor(cname)
            return out + '%s(&%s);' % (ctor, lv)
        if k in ('list', 'queue', 'cv', 'mutex', 'thread', 'fstream'):
            return 'VB_INIT_%s(&%s);' % (k, lv)
        if k == 'excptr':
            return '%s = 0;' % lv
        if k == 'sptr':
            return '%s = NULL;' % lv
        # scalar / enum / atomic
        if init is None: return '/* %s: no initialiser, indeterminate */' % lv
        args = init[1]
        if not args: return '%s = 0;' % lv
        if len(args) != 1: raise EmitError('scalar member with several initialisers')
        return '%s = %s;' % (lv, self.ex(args[0], cx)[0])

    def emit_ctor(self, cname):
        c = self.cls(cname)
        m = self.user_ctor(cname)
        fd = None
        if m is not None:
            fds = [f for f in self.funcs.get((cname, cname), []) if len(f.params) == len(m['params'])]
            if len(fds) != 1: raise EmitError('constructor definition of %s not found' % cname)
            fd = fds[0]
        fname = '%s_ctor' % cname
        cx = self.new_ctx(cname, fd, fname, True)
        params = ['struct %s *self' % cname]
        if m is not None:
            for (pty, pname, dflt) in fd.params:
                cx.declare(pname, pty)
                params.append('%s %s' % (self.ctype(pty), pname))
        inits = dict((n, a) for (n, a) in (fd.inits if fd else []))
        body = ''
        # 1. bases
        for b in c.bases:
            if b not in self.classes:
                self.dropped.add('base class %s of %s (not part of the library)' % (b, cname)); continue
            args = inits.pop(b, [])
            bctor = self.request_ctor(b, len(args))
            a = self.ctor_args(b, args, cx)
            body += '    %s(%s);\n' % (bctor, ', '.join(['&self->b_' + b] + a))
        # 2. members, declaration order
        for (ty, n, init, line) in c.members:
            lv = 'self->' + n
            if n in inits:
                args = inits.pop(n)
                if len(args) != 1: raise EmitError('%s: mem-initialiser %s with %d arguments' % (fname, n, len(args)))
                body += '    %s = %s;\n' % (lv, self.ex(args[0], cx)[0])
            else:
                body += '    ' + self.member_init(lv, ty, init, cx) + '\n'
        if inits: raise EmitError('%s: unknown mem-initialisers %s' % (fname, list(inits)))
        if self.is_polymorphic(cname):
            body += '    VB_SET_CLS(self, %s, %s);\n' % (cname, self.cls_path(cname))
        if fd is not None:
            cx.cleanup = [[], []]
            cx.no_touch = True     # construction: the object is not shared yet
            body += self.block(fd.body, cx, 1)
        proto = 'void %s(%s)' % (fname, ', '.join(params))
        text = self.hook(fname) + proto + '\nCONTRACT_%s\n{\n%s}\n' % (fname, body)
        self.add_function(fname, proto, text, cname, dict(kind='ctor', file=fd.file if fd else c.file, line=fd.line if fd else c.line,
                                                       calls=sorted(cx.calls)))

    def cls_path(self, cname):
        """member path to the cls__ tag"""
        root = self.root_of(cname)
        p = self.base_path(cname, root)
        return (p + '.' if p else '') + 'cls__'

    def emit_dtor(self, cname):
        c = self.cls(cname)
        fds = self.funcs.get((cname, '~'), [])
        fname = '%s_dtor' % cname
        fd = fds[0] if fds else None
        cx = self.new_ctx(cname, fd, fname, True)
        body = ''
        if fd is not None:
            cx.cleanup = [[], []]
            cx.no_touch = True     # destruction: no other thread may still use the object (precondition of every destructor)
            body += self.block(fd.body, cx, 1)
        for (ty, n, init, line) in reversed(c.members):
            k = self.member_kind(ty)
            lv = 'self->' + n
            if ty.ptr: continue
            if k == 'vec':
                body += '    %s_free(&%s);\n' % (self.ctype(ty).replace('struct ', ''), lv)
            elif k == 'class' and self.has_nontrivial_dtor(self.class_of(ty)):
                body += '    %s(&%s);\n' % (self.request_dtor(self.class_of(ty)), lv)
            elif k in ('list', 'queue', 'thread', 'fstream'):
                body += '    VB_DTOR_%s(&%s);\n' % (k, lv)
            elif k == 'sptr':
                body += '    VB_SPTR_RELEASE(%s);\n' % lv
        for b in reversed(c.bases):
            if b in self.classes and self.has_nontrivial_dtor(b):
                body += '    %s(&self->b_%s);\n' % (self.request_dtor(b), b)
        proto = 'void %s(struct %s *self)' % (fname, cname)
        text = self.hook(fname) + proto + '\nCONTRACT_%s\n{\n%s}\n' % (fname, body)
        self.add_function(fname, proto, text, cname, dict(kind='dtor', file=fd.file if fd else c.file, line=fd.line if fd else c.line,
                                                       calls=sorted(cx.calls), loops=cx.loops))

    # ---------------------------------------------------------------- methods
    def new_ctx(self, D, fd, fname, exact):
        cx = Ctx(self, D, fd, fname)
        cx.cname = fname; cx.exact = exact; cx.calls = set(); cx.loops = []; cx.cleanup = [[]]
        cx.cur_maythrow = False; cx.wait_no = 0; cx.iter_src = {}; cx.locks = []
        self.cur_cx = cx
        return cx

    def hook(self, fname):
        return '#ifndef CONTRACT_%s\n#define CONTRACT_%s\n#endif\n' % (fname, fname)

    def add_function(self, fname, proto, text, owner, meta):
        if fname in self.emitted: raise EmitError('duplicate function %s' % fname)
        loops = meta.get('loops') or []
        hooks = ''.join('#ifndef %s\n#define %s\n#endif\n' % (h, h) for h in loops)
        self.emitted[fname] = hooks + text
        self.protos[fname] = proto
        self.order.append(fname)
        meta = dict(meta); meta['owner'] = owner
        cx = getattr(self, 'cur_cx', None)
        if cx is not None and getattr(cx, 'cname', None) == fname and getattr(cx, 'fn_touches', None):
            meta['touches'] = sorted(list(t) for t in cx.fn_touches)
        self.fn_meta[fname] = meta

    def emit_method(self, fname, D, F, m):
        fd = self.find_def(F, m)
        if fd is None:
            if m.get('pure'): return
            if F in self.not_extracted or D in self.not_extracted: return
            raise EmitError('no definition for %s::%s (needed as %s)' % (F, m['name'], fname))
        exact = not self.is_abstract(D)
        cx = self.new_ctx(D, fd, fname, exact)
        cx.static = bool(m.get('static'))
        params = [] if cx.static else ['struct %s *self' % D]
        for (pty, pname, dflt) in fd.params:
            if pname is None:
                cx.tmp_no += 1; pname = 'vb_unused%d' % cx.tmp_no
            cx.declare(pname, pty)
            if self.passes_by_pointer(pty):
                params.append('%s *%s' % (self.ctype(pty.noref()), pname))
            else:
                params.append('%s %s' % (self.ctype(pty), pname))
        cx.cleanup = [[], []]
        body = self.block(fd.body, cx, 0)
        rty = self.ctype(fd.ret)
        proto = '%s %s(%s)' % (rty, fname, ', '.join(params) if params else 'void')
        text = self.hook(fname) + proto + '\nCONTRACT_%s\n' % fname + body
        self.add_function(fname, proto, text, D, dict(kind='method', cls=F, method=m['name'], file=fd.file, line=fd.line,
                                                   calls=sorted(cx.calls), loops=cx.loops, locks=cx.locks,
                                                   virtual=self.is_virtual(D, m['name'])))

    def run(self, roots):
        """roots: class names whose complete method set is to be emitted"""
        self.need_new = set()
        self.dropped = set()
        tn = set()
        self.compute_maythrow()
        self.throwing_names = {k[1] for k in self.throwing} | self.ALLOC_METHODS
        for D in roots:
            c = self.cls(D)
            self.request_ctor(D)
            if self.has_nontrivial_dtor(D) or self.is_polymorphic(D): self.request_dtor(D)
            if self.is_abstract(D):
                # only non-virtual / final methods can be called on an abstract type
                for m in c.methods:
                    if m['name'] in (D, '~', 'operator=') or m.get('pure') or m.get('special'): continue
                    if m.get('virtual') and not m.get('final'): continue
                    self.request(D, D, m)
                continue
            seen = set()
            for cname in [D] + self.all_bases(D):
                for m in self.cls(cname).methods:
                    if m['name'] in (cname, '~', 'operator=') or m.get('special'): continue
                    key = (m['name'], tuple(p[0].key() for p in m['params']))
                    if key in seen: continue
                    seen.add(key)
                    fo = self.final_overrider(D, m['name'], len(m['params']), m['params'][0][0] if m['params'] else None)
                    if fo is None or fo[1].get('pure'): continue
                    self.request(D, fo[0], fo[1])
        while self.worklist:
            fname, D, F, m = self.worklist.pop(0)
            if fname in self.emitted: continue
            if D in self.not_extracted: continue
            if m == 'ctor': self.emit_ctor(D)
            elif m == 'dtor': self.emit_dtor(D)
            else: self.emit_method(fname, D, F, m)

    # ---------------------------------------------------------------- struct / header emission
    def struct_order(self, names):
        order = []; seen = set()
        def visit(n):
            if n in seen or n not in self.classes: return
            seen.add(n)
            c = self.cls(n)
            for b in c.bases: visit(b)
            for (ty, mn, init, line) in c.members:
                if ty.ptr == 0:
                    cn = ty.name if ty.name in self.classes else None
                    if cn: visit(cn)
            order.append(n)
        for n in names: visit(n)
        return order

    def member_decl(self, ty, name):
        if ty.name == 'std::array' and ty.ptr == 0:
            el = ty.args[0]
            return 'struct { %s e[%d]; } %s;' % (self.ctype(el), ty.args[1], name)
        return '%s %s;' % (self.ctype(ty), name)

    def emit_struct(self, cname):
        c = self.cls(cname)
        out = 'struct %s {\n' % cname
        has_poly_base = any(b in self.classes and self.is_polymorphic(b) for b in c.bases[:1])
        if self.is_polymorphic(cname) and not has_poly_base:
            out += '    uint32_t cls__; /* ghost class tag, stands for the vptr */\n'
        out += '    VB_GHOST_%s\n' % cname
        for b in c.bases:
            if b in self.classes:
                out += '    struct %s b_%s;\n' % (b, b)
        for (ty, n, init, line) in c.members:
            out += '    ' + self.member_decl(ty, n) + '\n'
        out += '};\n'
        return '#ifndef VB_GHOST_%s\n#define VB_GHOST_%s\n#endif\n' % (cname, cname) + out

    def emit_enums(self):
        out = ''
        for e in self.all_enums():
            val = None
            cty = self.ctype(e.underlying) if e.underlying else 'int'
            for (iname, v) in e.items:
                if v is not None:
                    cx = Ctx(self, e.owner, None, 'enum ' + e.name)
                    cx.calls = set(); cx.cur_maythrow = False
                    vt = self.ex(v, cx)[0]
                    val = vt
                    expr = '((%s)(%s))' % (cty, vt)
                else:
                    if val is None:
                        val = '0'; expr = '((%s)0)' % cty
                    else:
                        val = '(%s) + 1' % val; expr = '((%s)(%s))' % (cty, val)
                out += '#define %s %s\n' % (self.enum_const_name(e, iname), expr)
        for name, (ty, ex_) in self.u.consts.items():
            cx = Ctx(self, None, None, 'const ' + name)
            cx.calls = set(); cx.cur_maythrow = False
            out += '#define VBC_%s ((%s)(%s))\n' % (name, self.ctype(ty), self.ex(ex_, cx)[0])
        return out

    def emit_new_delete(self, cname):
        out = ''
        n = '%s_new' % cname
        proto = 'struct %s *%s(void)' % (cname, n)
        body = ('    struct %s *p = (struct %s *)VB_ALLOC(sizeof(struct %s));\n' % (cname, cname, cname) +
                '    if (p == NULL) { vb_exc = VB_EXC_STD; return NULL; }\n' +
                '    %s_ctor(p);\n    return p;\n' % cname)
        self.add_function(n, proto, self.hook(n) + proto + '\nCONTRACT_%s\n{\n%s}\n' % (n, body), cname,
                          dict(kind='new', calls=['%s_ctor' % cname]))
        d = '%s_delete' % cname
        proto = 'void %s(struct %s *p)' % (d, cname)
        dt = '%s_dtor' % cname
        has = dt in self.emitted
        body = '    if (p == NULL) return;\n' + ('    %s(p);\n' % dt if has else '') + '    VB_FREE(p);\n'
        self.add_function(d, proto, self.hook(d) + proto + '\nCONTRACT_%s\n{\n%s}\n' % (d, body), cname,
                          dict(kind='delete', calls=[dt] if has else []))

    def emit_dispatcher(self, root, mname, m, instantiable):
        """switch over the ghost class tag; used natively, replaced by contracts in proofs"""
        if mname == '~':
            fn = '%s_v_delete' % root
            proto = 'void %s(struct %s *p)' % (fn, root)
            body = '    if (p == NULL) return;\n    switch (p->cls__) {\n'
            for D in instantiable:
                if not self.derives_from(D, root) or self.root_of(D) != root: continue
                if ('%s_delete' % D) not in self.emitted: continue
                body += '    case CLS_%s: %s_delete((struct %s *)p); break;\n' % (D, D, D)
            body += '    default: VB_UNREACHABLE(); break;\n    }\n'
            return fn, proto, body
        fn = '%s_v_%s' % (root, mname)
        params = ['struct %s *p' % root]
        args = []
        for i, (pty, pname, dflt) in enumerate(m['params']):
            pname = pname or ('a%d' % i)
            if self.passes_by_pointer(pty):
                params.append('%s *%s' % (self.ctype(pty.noref()), pname))
            else:
                params.append('%s %s' % (self.ctype(pty), pname))
            args.append(pname)
        rty = self.ctype(m['ret'])
        proto = '%s %s(%s)' % (rty, fn, ', '.join(params))
        body = '    switch (p->cls__) {\n'
        ret = '' if rty == 'void' else 'return '
        for D in instantiable:
            if not self.derives_from(D, root) or self.root_of(D) != root: continue
            fo = self.final_overrider(D, mname, len(m['params']), m['params'][0][0] if m['params'] else None)
            if fo is None or fo[1].get('pure'): continue
            tn = self.fn_name(D, fo[0], fo[1])
            if tn not in self.emitted: continue
            selfarg = self.self_for('((struct %s *)p)' % D, D, fo[0], fo[1])
            body += '    case CLS_%s: %s%s(%s); %s\n' % (D, ret, tn, ', '.join([selfarg] + args),
                                                   '' if ret else 'break;')
        body += '    default: VB_UNREACHABLE(); %s\n    }\n' % ('' if rty == 'void' else 'return 0;')
        return fn, proto, body
