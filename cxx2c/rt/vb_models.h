/* Default (executable) models of std::list<shared_ptr<LogContainer>>, std::queue<T*>,
 * shared_ptr reference counting and std::copy.  Included by the generated blf.h
 * after the vector declarations.  A proof harness may pre-define VB_MODELS_CUSTOM
 * and supply its own definitions of every macro below. */
#ifndef VB_MODELS_H
#define VB_MODELS_H
#ifndef VB_MODELS_CUSTOM
struct LogContainer;
struct ObjectHeaderBase;

/* shared_ptr<LogContainer>: intrusive reference count kept in a side table entry */
#ifndef VB_GHOST_LogContainer
#define VB_GHOST_LogContainer int vb_refcnt;
#endif
struct LogContainer *vb_sptr_copy(struct LogContainer *p);
void vb_sptr_release(struct LogContainer *p);
#define VB_SPTR_ADOPT(p) vb_sptr_copy(p)
#define VB_SPTR_COPY(p) vb_sptr_copy(p)
#define VB_SPTR_RELEASE(p) vb_sptr_release(p)
#define VB_SPTR_SET(lhs, rhs) do { struct LogContainer *vb_n = (rhs); vb_sptr_release(lhs); (lhs) = vb_n; } while (0)

struct vb_list_LogContainer_p { struct LogContainer **items; size_t head, tail, cap; };
void vb_list_push_back(struct vb_list_LogContainer_p *l, struct LogContainer *x);
void vb_list_pop_front(struct vb_list_LogContainer_p *l);
void vb_list_dtor(struct vb_list_LogContainer_p *l);
#define VB_INIT_list(l) ((l)->items = NULL, (l)->head = 0, (l)->tail = 0, (l)->cap = 0)
#define VB_DTOR_list(l) vb_list_dtor(l)
#define VB_LIST_EMPTY(l) ((l).head == (l).tail)
#define VB_LIST_SIZE(l) ((size_t)((l).tail - (l).head))
#define VB_LIST_FRONT(l) ((l).items[(l).head])
#define VB_LIST_BACK(l) ((l).items[(l).tail - 1])
#define VB_LIST_AT(l, i) ((l).items[i])
#define VB_LIST_BEGIN(l) ((l).head)
#define VB_LIST_END(l) ((l).tail)
#define VB_LIST_PUSH_BACK(l, x) vb_list_push_back(&(l), x)
#define VB_LIST_POP_FRONT(l) vb_list_pop_front(&(l))

struct vb_queue { struct ObjectHeaderBase **items; size_t head, tail, cap; };
void vb_queue_push(struct vb_queue *q, struct ObjectHeaderBase *x);
#define VB_INIT_queue(q) ((q)->items = NULL, (q)->head = 0, (q)->tail = 0, (q)->cap = 0)
#define VB_DTOR_queue(q) (free((q)->items), (q)->items = NULL)
#define VB_QUEUE_EMPTY(q) ((q).head == (q).tail)
#define VB_QUEUE_FRONT(q) ((q).items[(q).head])
#define VB_QUEUE_POP(q) ((q).head++)
#define VB_QUEUE_SIZE(q) ((q).tail - (q).head)
#define VB_QUEUE_PUSH(q, x) vb_queue_push(&(q), x)

#define VB_COPY(dst, first, last) memmove((dst), (first), (size_t)((const char *)(last) - (const char *)(first)))
#endif
#endif
