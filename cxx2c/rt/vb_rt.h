/* Runtime / model header for the C text extracted from vector_blf by cxx2c.
 * Everything here stands for a piece of the C++ standard library or language
 * runtime and is therefore part of the trusted base (listed in the evidence).
 * Proof harnesses may pre-define any VB_* macro to substitute a ghost model. */
#ifndef VB_RT_H
#define VB_RT_H
#include <stdint.h>
#include <stddef.h>
#include <stdlib.h>
#include <string.h>

/* ---- exceptions: 0 none, 1 Vector::BLF::Exception, 2 std:: exception (bad_alloc, length_error) */
#define VB_EXC_BLF 1
#define VB_EXC_STD 2
extern int vb_exc;
extern int vb_caught;

/* ---- std::ios_base constants (libstdc++ values) */
#define IOS_goodbit 0
#define IOS_badbit 1
#define IOS_eofbit 2
#define IOS_failbit 4
#define IOS_beg 0
#define IOS_cur 1
#define IOS_end 2
#define IOS_app 1
#define IOS_ate 2
#define IOS_binary 4
#define IOS_in 8
#define IOS_out 16
#define IOS_trunc 32

#define VB_MAX_int64_t INT64_MAX
#define VB_MAX_uint32_t UINT32_MAX
#define Z_OK 0

#ifndef VB_MIN
#define VB_MIN(a, b) (((b) < (a)) ? (b) : (a))
#endif
#ifndef VB_MAX
#define VB_MAX(a, b) (((a) < (b)) ? (b) : (a))
#endif
#ifndef VB_UPCAST
#define VB_UPCAST(p, path) ((p) == NULL ? NULL : &(p)->path)
#endif
#ifndef VB_SET_CLS
#define VB_SET_CLS(self, D, path) ((self)->path = CLS_##D)
#endif
#ifndef VB_MARK_HDR_END
#define VB_MARK_HDR_END(os) ((void)0)
#endif
#ifndef VB_UNREACHABLE
#define VB_UNREACHABLE() abort()
#endif
#ifndef VB_ALLOC
#define VB_ALLOC(n) malloc(n)
#endif
#ifndef VB_FREE
#define VB_FREE(p) free(p)
#endif

/* ---- std::vector<T> / std::string : {data,size}; operations are supplied by the
 *      selected model (native: vb_vec_native.h; proofs: contracts/vec_*.h) */
#define VB_DECLARE_VEC(NAME, T) \
    struct NAME { T *data; size_t size; }; \
    void NAME##_init(struct NAME *v); \
    void NAME##_free(struct NAME *v); \
    void NAME##_resize(struct NAME *v, size_t n); \
    void NAME##_assign(struct NAME *dst, const struct NAME *src);

/* ---- synchronisation primitives: ghost state only */
struct vb_mutex { int held; };
struct vb_cv { unsigned notified; };
struct vb_thread { int started; int joined; void (*entry)(void *); void *arg; };
struct vb_fstream { int handle; };
#ifdef VB_LOCKSET
/* lock-set tracking (C11/C06): std::lock_guard / std::unique_lock take the mutex at their declaration and release it at
 * the end of their scope (the extractor emits VB_UNLOCK on every exit path); std::mutex is not recursive */
#define VB_LOCK(m) do { __CPROVER_assert(!(m)->held, "C06/lock/a-stage-mutex-is-never-taken-again-by-the-thread-that-holds-it"); (m)->held = 1; } while (0)
#define VB_UNLOCK(m) ((m)->held = 0)
#define VB_TOUCH(self, Class, member) VB_TOUCH_##Class(self, member, "read")
#define VB_TOUCH_W(self, Class, member) VB_TOUCH_##Class(self, member, "written")
#endif
#ifndef VB_LOCK
#define VB_LOCK(m) ((void)0)
#endif
#ifndef VB_UNLOCK
#define VB_UNLOCK(m) ((void)0)
#endif
/* member-access hook: emitted before every statement of a method of a class that owns a mutex or a thread,
 * once per data member the statement's own expressions name (synchronisation members excepted) */
#ifndef VB_TOUCH
#define VB_TOUCH(self, Class, member) ((void)0)
#endif
#ifndef VB_TOUCH_W   /* the statement may modify the member: assignment target, ++/--, address taken, non-const method */
#define VB_TOUCH_W(self, Class, member) ((void)0)
#endif
#ifndef VB_NOTIFY
#define VB_NOTIFY(cv) ((cv)->notified++)
#endif
#ifndef VB_WAIT
#define VB_WAIT(cv, pred) do { if (!(pred)) vb_would_block(); } while (0)
#endif
#ifndef VB_ARRAY_FILL   /* std::array::fill(v) with a non-zero value */
#define VB_ARRAY_FILL(a, n, v) do { for (size_t vb_i = 0; vb_i < (size_t)(n); vb_i++) (a).e[vb_i] = (v); } while (0)
#endif
#ifndef VB_WAIT_FOR   /* timed wait: the predicate's value when the wait ends (false = timed out) */
#define VB_WAIT_FOR(cv, pred) (pred)
#endif
void vb_would_block(void);
#ifndef VB_INIT_mutex
#define VB_INIT_mutex(m) ((m)->held = 0)
#endif
#ifndef VB_INIT_cv
#define VB_INIT_cv(c) ((c)->notified = 0)
#endif
#ifndef VB_INIT_thread
#define VB_INIT_thread(t) ((t)->started = 0, (t)->joined = 0)
#endif
#ifndef VB_INIT_fstream
#define VB_INIT_fstream(f) ((f)->handle = 0)
#endif
#ifndef VB_DTOR_thread
#define VB_DTOR_thread(t) ((void)0)
#endif
#ifndef VB_DTOR_fstream
#define VB_DTOR_fstream(f) ((void)0)
#endif
#ifndef VB_THREAD_START
#define VB_THREAD_START(t, fn, arg) ((t)->started = 1, (t)->joined = 0)
#endif
#ifndef VB_THREAD_JOINABLE
#define VB_THREAD_JOINABLE(t) ((t)->started && !(t)->joined)
#endif
#ifndef VB_THREAD_JOIN
#define VB_THREAD_JOIN(t) ((t)->joined = 1)
#endif

/* ---- external dependencies: declared only; assumed contracts live in contracts/extern_assumed.h,
 *      native bindings in vb_native_ext.c */
#ifndef CONTRACT_vb_fstream_gcount
#define CONTRACT_vb_fstream_gcount
#endif
int64_t vb_fstream_gcount(struct vb_fstream *f)
CONTRACT_vb_fstream_gcount;
#ifndef CONTRACT_vb_fstream_read
#define CONTRACT_vb_fstream_read
#endif
void vb_fstream_read(struct vb_fstream *f, char *s, int64_t n)
CONTRACT_vb_fstream_read;
#ifndef CONTRACT_vb_fstream_tellg
#define CONTRACT_vb_fstream_tellg
#endif
int64_t vb_fstream_tellg(struct vb_fstream *f)
CONTRACT_vb_fstream_tellg;
#ifndef CONTRACT_vb_fstream_seekg
#define CONTRACT_vb_fstream_seekg
#endif
void vb_fstream_seekg(struct vb_fstream *f, int64_t off, int way)
CONTRACT_vb_fstream_seekg;
#ifndef CONTRACT_vb_fstream_write
#define CONTRACT_vb_fstream_write
#endif
void vb_fstream_write(struct vb_fstream *f, const char *s, int64_t n)
CONTRACT_vb_fstream_write;
#ifndef CONTRACT_vb_fstream_tellp
#define CONTRACT_vb_fstream_tellp
#endif
int64_t vb_fstream_tellp(struct vb_fstream *f)
CONTRACT_vb_fstream_tellp;
#ifndef CONTRACT_vb_fstream_good
#define CONTRACT_vb_fstream_good
#endif
_Bool vb_fstream_good(struct vb_fstream *f)
CONTRACT_vb_fstream_good;
#ifndef CONTRACT_vb_fstream_eof
#define CONTRACT_vb_fstream_eof
#endif
_Bool vb_fstream_eof(struct vb_fstream *f)
CONTRACT_vb_fstream_eof;
#ifndef CONTRACT_vb_fstream_open
#define CONTRACT_vb_fstream_open
#endif
void vb_fstream_open(struct vb_fstream *f, const char *filename, int mode)
CONTRACT_vb_fstream_open;
#ifndef CONTRACT_vb_fstream_is_open
#define CONTRACT_vb_fstream_is_open
#endif
_Bool vb_fstream_is_open(struct vb_fstream *f)
CONTRACT_vb_fstream_is_open;
#ifndef CONTRACT_vb_fstream_close
#define CONTRACT_vb_fstream_close
#endif
void vb_fstream_close(struct vb_fstream *f)
CONTRACT_vb_fstream_close;
#ifndef CONTRACT_vb_fstream_seekp
#define CONTRACT_vb_fstream_seekp
#endif
void vb_fstream_seekp(struct vb_fstream *f, int64_t pos)
CONTRACT_vb_fstream_seekp;
#ifndef CONTRACT_vb_zlib_compressBound
#define CONTRACT_vb_zlib_compressBound
#endif
unsigned long vb_zlib_compressBound(unsigned long sourceLen)
CONTRACT_vb_zlib_compressBound;
#ifndef CONTRACT_vb_zlib_uncompress
#define CONTRACT_vb_zlib_uncompress
#endif
int vb_zlib_uncompress(uint8_t *dest, unsigned long *destLen, const uint8_t *source, unsigned long sourceLen)
CONTRACT_vb_zlib_uncompress;
#ifndef CONTRACT_vb_zlib_compress2
#define CONTRACT_vb_zlib_compress2
#endif
int vb_zlib_compress2(uint8_t *dest, unsigned long *destLen, const uint8_t *source, unsigned long sourceLen, int level)
CONTRACT_vb_zlib_compress2;

#endif
