/* Native implementations of the runtime models (translation validation and replay builds). */
#include "blf.h"
#include <stdio.h>

int vb_exc;
int vb_caught;
size_t vb_alloc_cap = (size_t)256 << 20;   /* allocation cap standing for std::bad_alloc / length_error */

void vb_would_block(void) { fprintf(stderr, "vb: wait predicate false in a sequential run\n"); abort(); }

#define VB_DEFINE_VEC(NAME, T) \
    void NAME##_init(struct NAME *v) { v->data = NULL; v->size = 0; } \
    void NAME##_free(struct NAME *v) { free(v->data); v->data = NULL; v->size = 0; } \
    void NAME##_resize(struct NAME *v, size_t n) { \
        if (n > vb_alloc_cap / sizeof(T)) { vb_exc = VB_EXC_STD; return; } \
        if (n == v->size) return; \
        T *p = (T *)realloc(v->data, n ? n * sizeof(T) : 1); \
        if (!p) { vb_exc = VB_EXC_STD; return; } \
        if (n > v->size) memset(p + v->size, 0, (n - v->size) * sizeof(T)); \
        v->data = p; v->size = n; } \
    void NAME##_assign(struct NAME *dst, const struct NAME *src) { \
        if (dst == src) return; \
        NAME##_resize(dst, src->size); if (vb_exc) return; \
        if (src->size) memcpy(dst->data, src->data, src->size * sizeof(T)); }

#include "vb_vecs.inc"

#ifndef VB_MODELS_CUSTOM
struct LogContainer *vb_sptr_copy(struct LogContainer *p) { if (p) p->vb_refcnt++; return p; }
void vb_sptr_release(struct LogContainer *p) {
    if (p && --p->vb_refcnt == 0) { LogContainer_dtor(p); free(p); }
}
void vb_list_push_back(struct vb_list_LogContainer_p *l, struct LogContainer *x) {
    if (l->tail == l->cap) {
        size_t nc = l->cap ? l->cap * 2 : 8;
        l->items = (struct LogContainer **)realloc(l->items, nc * sizeof(*l->items));
        l->cap = nc;
    }
    l->items[l->tail++] = vb_sptr_copy(x);
}
void vb_list_pop_front(struct vb_list_LogContainer_p *l) { vb_sptr_release(l->items[l->head++]); }
void vb_list_dtor(struct vb_list_LogContainer_p *l) {
    while (l->head != l->tail) vb_list_pop_front(l);
    free(l->items); l->items = NULL;
}
void vb_queue_push(struct vb_queue *q, struct ObjectHeaderBase *x) {
    if (q->tail == q->cap) {
        size_t nc = q->cap ? q->cap * 2 : 8;
        q->items = (struct ObjectHeaderBase **)realloc(q->items, nc * sizeof(*q->items));
        q->cap = nc;
    }
    q->items[q->tail++] = x;
}
#endif
