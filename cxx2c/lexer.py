"""Tokenizer for the C++ subset used by vector_blf.

Comments are dropped.  Preprocessor lines are turned into ('pp', text) tokens so
that the parser can apply its must-fire rules to them (#include, #pragma once,
#undef/#ifdef of the one debug macro).
"""
import re

class LexError(Exception):
    pass

PUNCT3 = ['<<=', '>>=', '...', '->*']
PUNCT2 = ['::', '->', '++', '--', '<<', '>>', '<=', '>=', '==', '!=', '&&', '||',
          '+=', '-=', '*=', '/=', '%=', '&=', '|=', '^=']
PUNCT1 = list('{}[]()<>;:,.?~!+-*/%&|^=#')

_num = re.compile(r'(0[xX][0-9a-fA-F]+|\d+\.\d*([eE][-+]?\d+)?|\.\d+([eE][-+]?\d+)?|\d+([eE][-+]?\d+)?)[uUlLfF]*')
_id = re.compile(r'[A-Za-z_][A-Za-z_0-9]*')

class Tok:
    __slots__ = ('kind', 'text', 'file', 'line')
    def __init__(self, kind, text, file, line):
        self.kind = kind; self.text = text; self.file = file; self.line = line
    def __repr__(self):
        return '%s:%d:%s(%r)' % (self.file, self.line, self.kind, self.text)

def lex(src, fname):
    toks = []
    i = 0
    n = len(src)
    line = 1
    bol = True  # beginning of line (only whitespace so far)
    while i < n:
        c = src[i]
        if c == '\n':
            line += 1; i += 1; bol = True; continue
        if c in ' \t\r\f\v':
            i += 1; continue
        if src.startswith('//', i):
            j = src.find('\n', i)
            if j < 0: j = n
            i = j; continue
        if src.startswith('/*', i):
            j = src.find('*/', i + 2)
            if j < 0: raise LexError('%s:%d: unterminated comment' % (fname, line))
            line += src.count('\n', i, j + 2)
            i = j + 2; continue
        if c == '#' and bol:
            j = i
            # directive up to end of line (with continuation)
            while True:
                k = src.find('\n', j)
                if k < 0: k = n
                if k > 0 and src[k - 1] == '\\':
                    j = k + 1; continue
                break
            text = src[i:k]
            # strip trailing comment
            text = re.sub(r'//.*$', '', text)
            text = re.sub(r'/\*.*?\*/', '', text).strip()
            toks.append(Tok('pp', text, fname, line))
            line += src.count('\n', i, k)
            i = k; continue
        bol = False
        if c == '"':
            j = i + 1
            while j < n and src[j] != '"':
                if src[j] == '\\': j += 1
                j += 1
            toks.append(Tok('str', src[i:j + 1], fname, line))
            i = j + 1; continue
        if c == "'":
            j = i + 1
            while j < n and src[j] != "'":
                if src[j] == '\\': j += 1
                j += 1
            toks.append(Tok('chr', src[i:j + 1], fname, line))
            i = j + 1; continue
        m = _num.match(src, i)
        if m and (c.isdigit() or (c == '.' and i + 1 < n and src[i + 1].isdigit())):
            toks.append(Tok('num', m.group(0), fname, line))
            i = m.end(); continue
        m = _id.match(src, i)
        if m:
            toks.append(Tok('id', m.group(0), fname, line))
            i = m.end(); continue
        for p in PUNCT3:
            if src.startswith(p, i):
                toks.append(Tok('p', p, fname, line)); i += 3; break
        else:
            for p in PUNCT2:
                if src.startswith(p, i):
                    toks.append(Tok('p', p, fname, line)); i += 2; break
            else:
                if c in PUNCT1:
                    toks.append(Tok('p', c, fname, line)); i += 1
                else:
                    raise LexError('%s:%d: unexpected character %r' % (fname, line, c))
    toks.append(Tok('eof', '', fname, line))
    return toks
