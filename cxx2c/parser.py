"""Recursive-descent parser for the C++ dialect of vector_blf (headers + sources).

Every production is a must-fire rule: input outside the dialect raises
ParseError naming file, line and the rule that failed.  Nothing is skipped
silently; what is *dropped by design* is listed in DROPPED and reported.
"""
from .lexer import lex, Tok

class ParseError(Exception):
    pass

BUILTIN_TYPES = {
    'void', 'bool', 'char', 'int', 'unsigned', 'signed', 'long', 'short', 'double', 'float', 'size_t',
    'uint8_t', 'uint16_t', 'uint32_t', 'uint64_t', 'int8_t', 'int16_t', 'int32_t', 'int64_t',
    'uLong', 'Byte', 'uLongf', 'Bytef', 'char16_t', 'auto',
}

DROPPED = set()

class Type:
    """name: qualified name string ('std::vector', 'uint32_t', 'LogContainer', ...)
       args: template arguments (Type or int)
       ptr:  number of '*'   ref: '&' present   const: leading const"""
    def __init__(self, name, args=None, ptr=0, ref=False, const=False, suffix=None):
        self.name = name; self.args = args or []; self.ptr = ptr; self.ref = ref; self.const = const
        self.suffix = suffix  # e.g. 'const_iterator'
    def key(self):
        s = self.name
        if self.args:
            s += '<' + ','.join(a.key() if isinstance(a, Type) else str(a) for a in self.args) + '>'
        if self.suffix:
            s += '::' + self.suffix
        return s + '*' * self.ptr
    def __repr__(self):
        return ('const ' if self.const else '') + self.key() + ('&' if self.ref else '')
    def deref(self):
        return Type(self.name, self.args, self.ptr - 1, False, self.const, self.suffix)
    def noref(self):
        return Type(self.name, self.args, self.ptr, False, self.const, self.suffix)

class Parser:
    def __init__(self, toks, typenames):
        self.t = toks; self.i = 0
        self.typenames = typenames  # set of known class / enum / typedef names (shared, grows)
        self.template_params = set()

    # -- helpers -----------------------------------------------------------
    def peek(self, k=0):
        return self.t[min(self.i + k, len(self.t) - 1)]
    def at(self, text, k=0):
        tok = self.peek(k)
        return tok.kind in ('p', 'id') and tok.text == text
    def next(self):
        tok = self.t[self.i]; self.i += 1; return tok
    def err(self, rule, tok=None):
        tok = tok or self.peek()
        raise ParseError('%s:%d: rule <%s> did not fire at token %r' % (tok.file, tok.line, rule, tok.text))
    def expect(self, text, rule=None):
        if not self.at(text):
            self.err(rule or ('expect ' + text))
        return self.next()
    def accept(self, text):
        if self.at(text):
            self.next(); return True
        return False
    def ident(self, rule='identifier'):
        tok = self.peek()
        if tok.kind != 'id': self.err(rule)
        return self.next().text

    # -- types -------------------------------------------------------------
    def is_type_start(self, k=0):
        tok = self.peek(k)
        if tok.kind != 'id': return False
        if tok.text in ('const', 'constexpr', 'std', 'typename', 'mutable', 'static', 'struct'): return True
        return tok.text in BUILTIN_TYPES or tok.text in self.typenames or tok.text in self.template_params

    def split_shr(self):
        """turn a '>>' token into two '>' tokens (nested template close)"""
        tok = self.peek()
        if tok.kind == 'p' and tok.text == '>>':
            self.t[self.i:self.i + 1] = [Tok('p', '>', tok.file, tok.line), Tok('p', '>', tok.file, tok.line)]

    def parse_type(self):
        const = False
        while self.at('const') or self.at('constexpr') or self.at('typename') or self.at('struct'):
            if self.next().text in ('const', 'constexpr'): const = True
        parts = []
        # multiword builtin: unsigned int, long long ...
        if self.peek().text in ('unsigned', 'signed', 'long', 'short'):
            words = []
            while self.peek().text in ('unsigned', 'signed', 'long', 'short', 'int', 'char'):
                words.append(self.next().text)
            name = ' '.join(words); args = []; suffix = None
        else:
            name = self.ident('type-name')
            args = []; suffix = None
            while True:
                if self.at('::') and self.peek(1).kind == 'id':
                    self.next()
                    nxt = self.ident()
                    if args:
                        suffix = nxt if suffix is None else suffix + '::' + nxt
                    else:
                        name += '::' + nxt
                    continue
                if self.at('<') and not args and self._template_ok(name):
                    self.next()
                    while True:
                        self.split_shr()
                        if self.at('>'): break
                        if self.peek().kind == 'num':
                            args.append(int(self.next().text.rstrip('uUlL'), 0))
                        else:
                            args.append(self.parse_type())
                        self.split_shr()
                        if not self.accept(','): break
                    self.split_shr()
                    self.expect('>', 'template-args close')
                    continue
                break
        if self.at('const'):
            self.next(); const = True
        ptr = 0; ref = False
        while True:
            if self.at('*'):
                self.next(); ptr += 1
                if self.at('const'): self.next()
            elif self.at('&'):
                self.next(); ref = True
            elif self.at('&&'):
                self.next(); ref = True
            else:
                break
        return Type(name, args, ptr, ref, const, suffix)

    def _template_ok(self, name):
        return name.startswith('std::') or name in ('ObjectQueue',) or name in self.typenames and name in TEMPLATES

    # -- expressions -------------------------------------------------------
    BINPREC = [
        ['||'], ['&&'], ['|'], ['^'], ['&'], ['==', '!='], ['<', '>', '<=', '>='],
        ['<<', '>>'], ['+', '-'], ['*', '/', '%'],
    ]
    ASSIGNOPS = ['=', '+=', '-=', '*=', '/=', '%=', '&=', '|=', '^=', '<<=', '>>=']

    def parse_expr(self):
        e = self.parse_assign()
        # comma operator is not part of the dialect
        return e

    def parse_assign(self):
        lhs = self.parse_cond()
        tok = self.peek()
        if tok.kind == 'p' and tok.text in self.ASSIGNOPS:
            self.next()
            rhs = self.parse_assign()
            return ('assign', tok.text, lhs, rhs)
        return lhs

    def parse_cond(self):
        c = self.parse_bin(0)
        if self.at('?'):
            self.next()
            a = self.parse_assign()
            self.expect(':', 'conditional :')
            b = self.parse_assign()
            return ('cond', c, a, b)
        return c

    def parse_bin(self, lvl):
        if lvl == len(self.BINPREC):
            return self.parse_unary()
        lhs = self.parse_bin(lvl + 1)
        while True:
            tok = self.peek()
            if tok.kind == 'p' and tok.text in self.BINPREC[lvl]:
                self.next()
                rhs = self.parse_bin(lvl + 1)
                lhs = ('binop', tok.text, lhs, rhs)
            else:
                return lhs

    def parse_unary(self):
        tok = self.peek()
        if tok.kind == 'p' and tok.text in ('!', '~', '-', '+', '*', '&', '++', '--'):
            self.next()
            e = self.parse_unary()
            return ('unop', tok.text, e)
        if tok.kind == 'id' and tok.text == 'sizeof':
            self.next()
            self.expect('(', 'sizeof(')
            save = self.i
            if self.is_type_start() and not self._looks_like_member_expr():
                ty = self.parse_type()
                if self.at(')'):
                    self.next()
                    return ('sizeof_type', ty)
                self.i = save
            e = self.parse_expr()
            self.expect(')', 'sizeof close')
            return ('sizeof_expr', e)
        if tok.kind == 'id' and tok.text == 'new':
            self.next()
            ty = self.parse_type()
            args = []
            if self.accept('('):
                args = self.parse_args()
            return ('new', ty, args)
        if tok.kind == 'id' and tok.text == 'delete':
            self.next()
            return ('delete', self.parse_unary())
        if tok.kind == 'id' and tok.text == 'throw':
            self.next()
            if self.at(';'):
                return ('throw', None)      # rethrow inside a handler
            return ('throw', self.parse_assign())
        if tok.kind == 'p' and tok.text == '(' and self._c_cast_ahead():
            self.next()
            ty = self.parse_type()
            self.expect(')')
            e = self.parse_unary()
            return ('cast', 'c', ty, e)
        return self.parse_postfix()

    def _looks_like_member_expr(self):
        # sizeof(member) where member happens to share a name with a type: not in this code base
        return False

    def _c_cast_ahead(self):
        # '(' type ')' followed by something that starts a unary expression
        if not self.is_type_start(1): return False
        save = self.i
        try:
            self.next()
            self.parse_type()
            ok = self.at(')')
            if ok:
                self.next()
                nt = self.peek()
                ok = nt.kind in ('id', 'num', 'str', 'chr') or (nt.kind == 'p' and nt.text in ('(', '&', '*', '-', '!', '~'))
            return ok
        except ParseError:
            return False
        finally:
            self.i = save

    def parse_args(self):
        args = []
        if self.accept(')'): return args
        while True:
            args.append(self.parse_assign())
            if self.accept(','): continue
            self.expect(')', 'argument list close')
            return args

    def parse_primary(self):
        tok = self.peek()
        if tok.kind == 'num':
            self.next(); return ('num', tok.text)
        if tok.kind == 'str':
            self.next()
            s = tok.text
            while self.peek().kind == 'str':
                s = s[:-1] + self.next().text[1:]
            return ('str', s)
        if tok.kind == 'chr':
            self.next(); return ('chr', tok.text)
        if tok.kind == 'p' and tok.text == '(':
            self.next()
            e = self.parse_expr()
            self.expect(')', 'parenthesis close')
            return ('paren', e)
        if tok.kind == 'p' and tok.text == '[':
            return self.parse_lambda()
        if tok.kind == 'p' and tok.text == '::':
            # global qualifier ::uncompress(
            self.next()
            name = self.ident()
            return ('id', name)
        if tok.kind == 'id':
            if tok.text in ('static_cast', 'reinterpret_cast', 'const_cast', 'dynamic_cast'):
                self.next()
                self.expect('<')
                ty = self.parse_type()
                self.split_shr()
                self.expect('>')
                self.expect('(')
                e = self.parse_expr()
                self.expect(')')
                return ('cast', tok.text, ty, e)
            if tok.text == 'this':
                self.next(); return ('this',)
            if tok.text == 'nullptr':
                self.next(); return ('nullptr',)
            if tok.text in ('true', 'false'):
                self.next(); return ('bool', tok.text)
            # qualified / templated name
            parts = [self.next().text]
            targs = None
            while True:
                if self.at('::') and self.peek(1).kind == 'id':
                    self.next(); parts.append(self.next().text); continue
                if self.at('<') and targs is None and ('::'.join(parts) in ('std::make_shared', 'std::numeric_limits', 'std::shared_ptr', 'std::unique_lock', 'std::lock_guard', 'std::min', 'std::max')):
                    self.next()
                    targs = [self.parse_type()]
                    self.split_shr()
                    self.expect('>')
                    continue
                break
            if len(parts) == 1 and targs is None:
                return ('id', parts[0])
            return ('qid', parts, targs)
        self.err('primary-expression')

    def parse_lambda(self):
        self.expect('[')
        caps = []
        while not self.at(']'):
            tok = self.next()
            caps.append(tok.text)
        self.expect(']')
        params = []
        if self.accept('('):
            params = self.parse_params()
        body = self.parse_block()
        return ('lambda', caps, params, body)

    def parse_postfix(self):
        e = self.parse_primary()
        while True:
            tok = self.peek()
            if tok.kind != 'p': return e
            if tok.text == '(':
                self.next()
                args = self.parse_args()
                e = ('call', e, args)
            elif tok.text == '.' or tok.text == '->':
                self.next()
                name = self.ident('member name')
                e = ('member', e, name, tok.text == '->')
            elif tok.text == '[':
                self.next()
                idx = self.parse_expr()
                self.expect(']')
                e = ('index', e, idx)
            elif tok.text in ('++', '--'):
                self.next()
                e = ('postop', tok.text, e)
            else:
                return e

    # -- statements --------------------------------------------------------
    def parse_block(self):
        self.expect('{', 'block open')
        stmts = []
        while not self.at('}'):
            stmts.append(self.parse_stmt())
        self.expect('}')
        return ('block', stmts)

    def try_decl(self):
        """declaration statement:  type name [= e | (args) | {args}] ;"""
        if not self.is_type_start(): return None
        save = self.i
        try:
            while self.at('static') or self.at('mutable'): self.next()
            ty = self.parse_type()
            if self.peek().kind != 'id':
                self.i = save; return None
            name = self.next().text
            nt = self.peek()
            if nt.kind == 'p' and nt.text == '[':
                # local C array:  T name[N] [{...} | = {...}] ;
                self.next()
                dim = self.parse_expr()
                self.expect(']')
                line = self.peek().line
                init = None
                if self.accept('='):
                    pass
                if self.accept('{'):
                    init = []
                    while not self.at('}'):
                        init.append(self.parse_assign())
                        if not self.accept(','): break
                    self.expect('}')
                self.expect(';', 'array declaration end')
                return ('arraydecl', ty, name, dim, init, line)
            if nt.kind != 'p' or nt.text not in ('=', ';', '(', '{'):
                self.i = save; return None
            line = nt.line
            if self.accept(';'):
                return ('decl', ty, name, None, None, line)
            if self.accept('='):
                e = self.parse_expr()
                self.expect(';', 'declaration end')
                return ('decl', ty, name, 'copy', e, line)
            if self.accept('('):
                args = self.parse_args()
                self.expect(';', 'declaration end')
                return ('decl', ty, name, 'ctor', args, line)
            if self.accept('{'):
                args = []
                while not self.at('}'):
                    args.append(self.parse_assign())
                    if not self.accept(','): break
                self.expect('}')
                self.expect(';', 'declaration end')
                return ('decl', ty, name, 'brace', args, line)
        except ParseError:
            self.i = save
            return None

    def parse_stmt(self):
        tok = self.peek()
        line = tok.line
        if tok.kind == 'pp':
            self.next()
            return ('pp', tok.text, line)
        if tok.kind == 'p' and tok.text == '{':
            return self.parse_block()
        if tok.kind == 'p' and tok.text == ';':
            self.next(); return ('empty',)
        if tok.kind == 'id':
            if tok.text in ('struct', 'class') and self.peek(1).kind == 'id' and self.at('{', 2) and hasattr(self, 'parse_class'):
                # local class definition: hoisted into the class table (its name must be unique in the library)
                self.parse_class()
                DROPPED.add('block scope of local struct definitions (hoisted to file scope)')
                return ('empty',)
            if tok.text == 'static_assert':
                self.next(); self.expect('(')
                depth = 1
                while depth:
                    t = self.next()
                    if t.text == '(': depth += 1
                    elif t.text == ')': depth -= 1
                self.expect(';', 'static_assert end')
                DROPPED.add('static_assert')
                return ('empty',)
            if tok.text == 'if':
                self.next(); self.expect('(')
                c = self.parse_expr(); self.expect(')')
                then = self.parse_stmt()
                els = None
                if self.accept('else'):
                    els = self.parse_stmt()
                return ('if', c, then, els, line)
            if tok.text == 'while':
                self.next(); self.expect('(')
                c = self.parse_expr(); self.expect(')')
                body = self.parse_stmt()
                return ('while', c, body, line)
            if tok.text == 'for':
                self.next(); self.expect('(')
                # range-based for over a braced list:  for (T x : {a, b, c}) stmt
                save = self.i
                if self.is_type_start():
                    try:
                        rty = self.parse_type()
                        if self.peek().kind == 'id' and self.at(':', 1) and self.at('{', 2):
                            rname = self.ident(); self.next(); self.next()
                            elems = []
                            while not self.at('}'):
                                elems.append(self.parse_assign())
                                if not self.accept(','): break
                            self.expect('}'); self.expect(')')
                            body = self.parse_stmt()
                            return ('rangefor', rty, rname, elems, body, line)
                    except ParseError:
                        pass
                    self.i = save
                init = None
                if not self.at(';'):
                    init = self.try_decl()
                    if init is None:
                        init = ('expr', self.parse_expr(), line); self.expect(';')
                else:
                    self.next()
                cond = None
                if not self.at(';'): cond = self.parse_expr()
                self.expect(';')
                step = None
                if not self.at(')'): step = self.parse_expr()
                self.expect(')')
                body = self.parse_stmt()
                return ('for', init, cond, step, body, line)
            if tok.text == 'do':
                self.next()
                body = self.parse_stmt()
                self.expect('while'); self.expect('(')
                c = self.parse_expr(); self.expect(')'); self.expect(';')
                return ('dowhile', c, body, line)
            if tok.text == 'switch':
                self.next(); self.expect('(')
                e = self.parse_expr(); self.expect(')')
                body = self.parse_block()
                return ('switch', e, body, line)
            if tok.text == 'case':
                self.next()
                e = self.parse_cond()
                self.expect(':', 'case label')
                return ('case', e, line)
            if tok.text == 'default' and self.at(':', 1):
                self.next(); self.next()
                return ('default', line)
            if tok.text == 'break':
                self.next(); self.expect(';'); return ('break', line)
            if tok.text == 'continue':
                self.next(); self.expect(';'); return ('continue', line)
            if tok.text == 'return':
                self.next()
                e = None
                if not self.at(';'): e = self.parse_expr()
                self.expect(';', 'return end')
                return ('return', e, line)
            if tok.text == 'try':
                self.next()
                body = self.parse_block()
                handlers = []
                while self.at('catch'):
                    self.next(); self.expect('(')
                    if self.accept('...'):
                        cty = None; cname = None
                    else:
                        cty = self.parse_type()
                        cname = None
                        if self.peek().kind == 'id': cname = self.next().text
                    self.expect(')')
                    hb = self.parse_block()
                    handlers.append((cty, cname, hb))
                if not handlers: self.err('catch handler')
                return ('try', body, handlers, line)
        d = self.try_decl()
        if d is not None:
            return d
        e = self.parse_expr()
        self.expect(';', 'expression statement end')
        return ('expr', e, line)

    # -- declarations ------------------------------------------------------
    def parse_params(self):
        """after '(' ; returns list of (Type, name, default_expr)"""
        params = []
        if self.accept(')'): return params
        while True:
            ty = self.parse_type()
            name = None
            if self.peek().kind == 'id':
                name = self.next().text
            default = None
            if self.accept('='):
                default = self.parse_assign()
            params.append((ty, name, default))
            if self.accept(','): continue
            self.expect(')', 'parameter list close')
            return params

TEMPLATES = {'ObjectQueue'}


class ClassDef:
    def __init__(self, name, kind, file, line):
        self.name = name; self.kind = kind; self.file = file; self.line = line
        self.final = False
        self.bases = []        # names
        self.members = []      # (Type, name, init) init: None | ('brace', [exprs])
        self.methods = []      # dict(name, ret, params, virtual, static, const, pure, override, final, access, special)
        self.enums = []        # EnumDef
        self.template = None   # template parameter name
        self.inline_defs = []  # FuncDef parsed from header bodies

class EnumDef:
    def __init__(self, name, scoped, underlying, items, owner=None):
        self.name = name; self.scoped = scoped; self.underlying = underlying; self.items = items; self.owner = owner

class FuncDef:
    def __init__(self, cls, name, ret, params, body, inits, const, file, line, kind):
        self.cls = cls; self.name = name; self.ret = ret; self.params = params; self.body = body
        self.inits = inits; self.const = const; self.file = file; self.line = line
        self.kind = kind  # 'method' | 'ctor' | 'dtor'

class Unit:
    def __init__(self):
        self.classes = {}   # name -> ClassDef
        self.enums = {}     # name -> EnumDef (namespace level)
        self.consts = {}    # name -> (Type, expr)
        self.funcs = []     # FuncDef
        self.includes = []
        self.globals = []   # namespace-scope constants: (type, name, init expr, file, line)
        self.explicit_inst = []
        self.pp = []        # other preprocessor lines seen (file, line, text)


class TopParser(Parser):
    """namespace-level parsing of headers and sources"""
    def __init__(self, toks, typenames, unit):
        super().__init__(toks, typenames)
        self.u = unit

    def parse_file(self):
        while self.peek().kind != 'eof':
            self.parse_top()

    def parse_pp(self, tok):
        text = tok.text
        import re
        if re.match(r'#\s*pragma\s+once', text):
            DROPPED.add('#pragma once'); return
        if re.match(r'#\s*pragma\s+(GCC|warning)', text):
            DROPPED.add('#pragma diagnostic'); return
        m = re.match(r'#\s*include\s*[<"]([^>"]+)[>"]', text)
        if m:
            self.u.includes.append((tok.file, m.group(1))); DROPPED.add('#include'); return
        self.u.pp.append((tok.file, tok.line, text))

    def parse_top(self):
        tok = self.peek()
        if tok.kind == 'pp':
            self.next(); self.parse_pp(tok); return
        if self.at('namespace'):
            self.next(); self.ident(); self.expect('{')
            DROPPED.add('namespace')
            while not self.at('}'):
                self.parse_top()
            self.expect('}')
            return
        if self.at(';'):
            self.next(); return
        if self.at('static') and self.at('const', 1):
            # namespace-scope constant:  static const T name {init};  /  = init;
            self.next()
            ty = self.parse_type()
            name = self.ident('constant name')
            if self.accept('{'):
                init = self.parse_assign(); self.expect('}')
            else:
                self.expect('=', 'constant initialiser'); init = self.parse_assign()
            self.expect(';', 'constant end')
            self.u.globals.append((ty, name, init, tok.file, tok.line))
            return
        if self.at('extern') and self.at('template', 1):
            self.next(); self.next(); self.expect('class')
            self.parse_type(); self.expect(';')
            DROPPED.add('extern template'); return
        if self.at('template'):
            self.next()
            if self.at('class') or self.at('struct'):
                # explicit instantiation: template class ObjectQueue<ObjectHeaderBase>;
                self.next()
                ty = self.parse_type(); self.expect(';')
                self.u.explicit_inst.append(ty); return
            self.expect('<'); self.expect('typename')
            tp = self.ident(); self.expect('>')
            self.template_params.add(tp)
            try:
                if self.at('class') or self.at('struct'):
                    self.parse_class(template=tp)
                else:
                    self.parse_funcdef(template=tp)
            finally:
                self.template_params.discard(tp)
            return
        if self.at('enum'):
            e = self.parse_enum(None)
            self.u.enums[e.name] = e; return
        if self.at('struct') or self.at('class'):
            self.parse_class(); return
        if self.at('const'):
            # namespace-level constant
            ty = self.parse_type()
            name = self.ident()
            self.expect('=', 'constant initialiser')
            e = self.parse_expr(); self.expect(';')
            self.u.consts[name] = (ty, e); return
        self.parse_funcdef()

    def parse_enum(self, owner):
        self.expect('enum')
        scoped = False
        if self.at('class') or self.at('struct'):
            self.next(); scoped = True
        name = self.ident('enum name')
        underlying = None
        if self.accept(':'):
            underlying = self.parse_type()
        self.expect('{', 'enum body')
        items = []
        while not self.at('}'):
            iname = self.ident('enumerator')
            val = None
            if self.accept('='):
                val = self.parse_cond()
            items.append((iname, val))
            if not self.accept(','): break
        self.expect('}'); self.expect(';')
        self.typenames.add(name)
        return EnumDef(name, scoped, underlying, items, owner)

    def parse_class(self, template=None):
        kind = self.next().text
        tok = self.peek()
        if self.at('VECTOR_BLF_EXPORT'):
            self.next(); DROPPED.add('VECTOR_BLF_EXPORT')
        name = self.ident('class name')
        c = ClassDef(name, kind, tok.file, tok.line)
        c.template = template
        self.typenames.add(name)
        if self.accept('final'):
            c.final = True; DROPPED.add('final (recorded in class table)')
        if self.accept(';'):
            return  # forward declaration
        if self.accept(':'):
            while True:
                if self.at('public') or self.at('private') or self.at('protected'):
                    acc = self.next().text
                    if acc != 'public': self.err('public inheritance only')
                b = self.parse_type()
                c.bases.append(b.name)
                if not self.accept(','): break
        self.expect('{', 'class body')
        access = 'public' if kind == 'struct' else 'private'
        while not self.at('}'):
            if self.peek().kind == 'pp':
                self.parse_pp(self.next()); continue
            if (self.at('public') or self.at('private') or self.at('protected')) and self.at(':', 1):
                access = self.next().text; self.next()
                DROPPED.add('access specifiers'); continue
            if self.at('enum'):
                e = self.parse_enum(name)
                c.enums.append(e); continue
            self.parse_member(c, access)
        self.expect('}'); self.expect(';', 'class end')
        if name in self.u.classes:
            self.err('duplicate class ' + name, tok)
        self.u.classes[name] = c

    def parse_member(self, c, access):
        tok = self.peek()
        virtual = static = mutable = explicit = False
        while True:
            if self.accept('virtual'): virtual = True; DROPPED.add('virtual (recorded in class table)')
            elif self.accept('static'): static = True
            elif self.accept('mutable'): mutable = True; DROPPED.add('mutable')
            elif self.accept('explicit'): explicit = True; DROPPED.add('explicit')
            else: break
        # destructor
        if self.at('~'):
            self.next(); n = self.ident()
            if n != c.name: self.err('destructor name')
            self.expect('('); self.expect(')')
            m = dict(name='~', ret=None, params=[], virtual=virtual, static=False, const=False,
                     pure=False, access=access, special=None, line=tok.line)
            self.parse_method_tail(c, m)
            return
        # constructor / operator=
        if self.at(c.name) and self.at('(', 1):
            self.next(); self.next()
            params = self.parse_params()
            m = dict(name=c.name, ret=None, params=params, virtual=False, static=False, const=False,
                     pure=False, access=access, special=None, line=tok.line)
            self.parse_method_tail(c, m, ctor=True)
            return
        ty = self.parse_type()
        if self.at('operator'):
            self.next(); self.expect('=')
            self.expect('(')
            params = self.parse_params()
            m = dict(name='operator=', ret=ty, params=params, virtual=False, static=False, const=False,
                     pure=False, access=access, special=None, line=tok.line)
            self.parse_method_tail(c, m)
            return
        name = self.ident('member name')
        if self.at('('):
            self.next()
            params = self.parse_params()
            m = dict(name=name, ret=ty, params=params, virtual=virtual, static=static, const=False,
                     pure=False, access=access, special=None, line=tok.line)
            self.parse_method_tail(c, m)
            return
        # data member
        init = None
        if self.accept('['):
            # T name[N] -> the same model as std::array<T, N>
            dim = self.parse_assign(); self.expect(']')
            if dim[0] != 'num': self.err('array member with a non-literal bound', tok)
            ty = Type('std::array', [ty, int(dim[1], 0)])
        if self.accept('{'):
            args = []
            while not self.at('}'):
                args.append(self.parse_assign())
                if not self.accept(','): break
            self.expect('}')
            init = ('brace', args)
        elif self.accept('='):
            init = ('brace', [self.parse_assign()])
        self.expect(';', 'data member end')
        if static: self.err('static data member', tok)
        c.members.append((ty, name, init, tok.line))

    def parse_method_tail(self, c, m, ctor=False):
        while True:
            if self.accept('const'): m['const'] = True; DROPPED.add('const on methods')
            elif self.accept('noexcept'): DROPPED.add('noexcept')
            elif self.accept('override'): m['override'] = True; DROPPED.add('override')
            elif self.accept('final'): m['final'] = True
            else: break
        if self.accept('='):
            if self.peek().text == '0':
                self.next(); m['pure'] = True
            elif self.at('default'):
                self.next(); m['special'] = 'default'; DROPPED.add('defaulted special members')
            elif self.at('delete'):
                self.next(); m['special'] = 'delete'; DROPPED.add('deleted special members')
            else:
                self.err('= 0 | default | delete')
            self.expect(';')
            c.methods.append(m); return
        if self.at(':') or self.at('{'):
            # inline definition in the header (Exception only)
            inits = []
            if self.accept(':'):
                inits = self.parse_mem_inits()
            body = self.parse_block()
            kind = 'ctor' if ctor else ('dtor' if m['name'] == '~' else 'method')
            fd = FuncDef(c.name, m['name'], m['ret'], m['params'], body, inits, m['const'], c.file, m['line'], kind)
            c.inline_defs.append(fd)
            m['inline'] = True
            c.methods.append(m); return
        self.expect(';', 'method declaration end')
        c.methods.append(m)

    def parse_mem_inits(self):
        inits = []
        while True:
            ty = self.parse_type()
            if self.accept('('):
                args = self.parse_args()
            else:
                self.expect('{')
                args = []
                while not self.at('}'):
                    args.append(self.parse_assign())
                    if not self.accept(','): break
                self.expect('}')
            inits.append((ty.name, args))
            if not self.accept(','): break
        return inits

    def parse_funcdef(self, template=None):
        """out-of-line member function / ctor / dtor definition"""
        tok = self.peek()
        save = self.i
        # constructor or destructor:  Class::Class( | Class::~Class( | Class<T>::~Class(
        ret = None
        cls = None
        def parse_owner():
            n = self.ident('class name')
            if self.at('<'):
                self.next(); self.ident(); self.expect('>')
            return n
        if tok.kind == 'id' and tok.text in self.typenames and (self.at('::', 1) or (self.at('<', 1) and self.at('::', 4))):
            # could be ctor/dtor or a return type that is a class (not used in this code base except ObjectType etc.)
            owner = parse_owner()
            if self.at('::'):
                self.next()
                if self.at('~'):
                    self.next(); n = self.ident()
                    if n != owner: self.err('destructor name')
                    self.expect('('); self.expect(')')
                    body = self.parse_block()
                    self.u.funcs.append(FuncDef(owner, '~', None, [], body, [], False, tok.file, tok.line, 'dtor'))
                    return
                if self.at(owner) and self.at('(', 1):
                    self.next(); self.next()
                    params = self.parse_params()
                    inits = []
                    if self.accept(':'):
                        inits = self.parse_mem_inits()
                    body = self.parse_block()
                    self.u.funcs.append(FuncDef(owner, owner, None, params, body, inits, False, tok.file, tok.line, 'ctor'))
                    return
            self.i = save
        ret = self.parse_type()
        owner = parse_owner()
        self.expect('::', 'Class::method definition')
        name = self.ident('method name')
        self.expect('(')
        params = self.parse_params()
        const = False
        while True:
            if self.accept('const'): const = True
            elif self.accept('noexcept'): pass
            else: break
        body = self.parse_block()
        self.u.funcs.append(FuncDef(owner, name, ret, params, body, [], const, tok.file, tok.line, 'method'))


def parse_sources(files):
    """files: list of (path, text); headers must come first. Returns Unit."""
    unit = Unit()
    typenames = set()
    # pre-scan (on tokens, so comments do not count): class / struct / enum names,
    # needed to decide declaration-vs-expression
    lexed = []
    for path, text in files:
        toks = lex(text, path)
        lexed.append(toks)
        for i, t in enumerate(toks):
            if t.kind == 'id' and t.text in ('struct', 'class', 'enum'):
                j = i + 1
                while toks[j].kind == 'id' and toks[j].text in ('class', 'struct', 'VECTOR_BLF_EXPORT'):
                    j += 1
                if toks[j].kind == 'id':
                    typenames.add(toks[j].text)
    for toks in lexed:
        p = TopParser(toks, typenames, unit)
        p.parse_file()
    return unit
