"""C01 - write-then-read returns the same objects (codec inverse RT1 + stage contracts).

Part 1 (this file): for every creatable class D, read(write(x)) == x member-wise in the BYTES flavour:
   every scalar member symbolic over its full width (incl. stale size/length fields and every variant
   selector), every container with symbolic size <= N and symbolic content; asserts stream good,
   consumed == emitted (RT3, also cited by C03), no exception, and equality of every serialised member
   (containers: size and the element at one arbitrary ghost index).  Complete in scalar values;
   BOUNDED in payload length (N = 8 quick / 24 thorough; every residue mod 4 occurs twice).
Part 2: the stage transfer functions of File.cpp are decided by C04/C05/C08/C15/C16 and cited.
"""
import sys, os, json
sys.path.insert(0, os.path.dirname(os.path.dirname(os.path.abspath(__file__))))
from run import core, classinfo
from checks import bytes_common as bc


def size_vectors(nvec, nmax):
    """concrete container-size vectors: all-equal 0..nmax (every residue mod 4, empty, >= one word), plus two mixed ones"""
    if nvec == 0: return [()]
    out = [tuple([n] * nvec) for n in range(nmax + 1)]
    if nvec > 1:
        out.append(tuple((i + 1) % (nmax + 1) for i in range(nvec)))
        out.append(tuple((nmax - i) % (nmax + 1) for i in range(nvec)))
    return out


def rt_job(info, cn, nmax, prop='C01', extra_assume=None, suffix='', only_scen=None):
    """one job per class: the round trip is run for a list of CONCRETE container-size vectors (all loop bounds and
       stream positions are then concrete), with every scalar value, array content and container content symbolic."""
    rd = info.classes[cn]['vtable']['read']; wr = info.classes[cn]['vtable']['write']
    vecs = [l for l in info.leaves(cn) if l['kind'] == 'vec']
    src = bc.prelude(info, cn, nmax)
    src += bc.havoc_decls(info, cn, nmax)
    cap = bc.stream_cap(info, cn, nmax)
    n = [0]
    body = ''
    def A(cond, label):
        nonlocal body
        body += '    __CPROVER_assert(%s, "%s");\n' % (cond, label); n[0] += 1
    scen = bc.optional(info).get(cn, {}).get('scenarios') or [{}]
    n_scen = len(scen)
    if only_scen is not None: scen = [scen[only_scen]]
    sel_paths = sorted({k for sc in scen for k in sc})
    leaves_by_path = {l['path']: l for l in info.leaves(cn)}
    for sp in sel_paths:
        if sp not in leaves_by_path: raise core.Inconclusive('spec/optional_members.json: %s.%s is not a member' % (cn, sp))
    params = ', '.join(['size_t s%d' % i for i in range(len(vecs))] +
                       ['%s c%d' % (leaves_by_path[sp]['ctype'], i) for i, sp in enumerate(sel_paths)]) or 'void'
    src += 'static void scenario(%s)\n{\n    struct %s x, y; size_t k;\n' % (params, cn)
    src += '    vb_exc = 0;\n    %s_ctor(&x); %s_ctor(&y);\n' % (cn, cn)
    src += bc.havoc_inputs(info, cn, nmax)
    for i, v in enumerate(vecs):
        src += '    in_%s__size = s%d;\n' % (classinfo.cid(v['path']), i)
    for i, sp in enumerate(sel_paths):
        src += '    in_%s = c%d;\n' % (classinfo.cid(sp), i)
    src += bc.populate(info, cn, 'x', nmax)
    if extra_assume: src += '    if (!(%s)) return;   /* inside the witness region of a recorded finding */\n' % extra_assume
    src += '    uint8_t buf[%d]; struct AbstractFile f; f.buf = buf; f.cap = %d; f.g = 0; f.p = 0; f.fileSize = INT64_MAX; f.rdstate = 0; f.gcount = 0; f.hdr_end = -1;\n' % (cap, cap)
    A('vb_exc == 0', '%s/%s/roundtrip/setup-no-exception' % (prop, cn))
    body += '    %s(%s, &f);\n' % (wr['fn'], '&x' if not wr['self'] else '&x.' + wr['self'])
    A('vb_exc == 0', '%s/%s/roundtrip/write-raises-no-exception' % (prop, cn))
    body += '    f.fileSize = f.p;\n'
    body += '    %s(%s, &f);\n' % (rd['fn'], '&y' if not rd['self'] else '&y.' + rd['self'])
    A('vb_exc == 0', '%s/%s/roundtrip/read-raises-no-exception' % (prop, cn))
    A('f.rdstate == 0', '%s/%s/roundtrip/stream-good-after-read' % (prop, cn))
    A('f.g == f.p', '%s/%s/roundtrip/RT3-decoding-consumes-exactly-what-was-emitted' % (prop, cn))
    bc.compare_members(info, cn, '%s/%s/roundtrip' % (prop, cn), A)
    src += body + '}\n'
    svs = size_vectors(len(vecs), nmax)
    if n_scen * len(svs) > 48:
        svs = size_vectors(len(vecs), 4)      # many layout variants: fewer payload sizes per variant
    src += 'void harness(void)\n{\n'
    for sc in scen:
        for sv in svs:
            args = [str(x) for x in sv] + ['%du' % sc[sp] for sp in sel_paths]
            src += '    scenario(%s);\n' % ', '.join(args)
    src += '    __CPROVER_assert(0, "canary");\n}\n'
    if only_scen is not None: suffix = '_v%d%s' % (only_scen, suffix)
    return core.Job('%s_%s_roundtrip%s' % (prop, cn, suffix), src, route='harness', unwind=max(cap, 600) + 2,
                    functions=['%s::write' % cn, '%s::read' % cn], canary_ids=['harness.assertion.1'],
                    timeout=300, flags=bc.FLAGS + ["--max-field-sensitivity-array-size", "4096"],
                    bounded=(('container sizes enumerated over %s (concrete); ' % (svs,) if vecs else '') +
                             ('layout selectors enumerated over %s; ' % scen if sel_paths else '') +
                             'contents and every other scalar symbolic at full width') if (vecs or sel_paths) else None)


def rt_jobs(info, cn, nmax, prop='C01', extra_assume=None, suffix=''):
    """one job per layout variant (selector scenario) of the class"""
    scen = bc.optional(info).get(cn, {}).get('scenarios')
    if not scen: return [rt_job(info, cn, nmax, prop, extra_assume, suffix)]
    return [rt_job(info, cn, nmax, prop, extra_assume, suffix, only_scen=i) for i in range(len(scen))]


def classes_for(info):
    return [c for c in info.codec_classes() if info.is_object(c) and info.class_codes(c)] + ['LogContainer'] \
        if False else [c for c in info.codec_classes() if info.is_object(c) and (info.class_codes(c))]


def make_replayer(info):
    from harness import replay_gen
    def replayer(job, label, vals, data):
        """native replay of a round-trip counterexample: the traced inputs are written and read back by the REAL codec"""
        if label.startswith('C01/via-C03/'):
            from checks import c03
            return c03.make_replayer(info)(job, 'C03/' + label[len('C01/via-C03/'):], vals, data)
        parts = label.split('/')
        if len(parts) < 4 or parts[2] != 'roundtrip': return None, 'no native observation point'
        cn, clause = parts[1], parts[3]
        if not (info.is_object(cn) and info.classes[cn]['default_constructible']): return None, 'no native driver'
        lines = replay_gen.script_from_inputs(info, cn, vals)
        leaves = {l['path']: l for l in info.leaves(cn)}
        want = None
        if clause.startswith('member:'):
            path = clause[len('member:'):].replace('.size', '').replace('.content', '')
            if path in leaves and leaves[path]['kind'] in ('scalar', 'vec'):
                lines.append('get %s' % path); want = path
        lines.append('roundtrip')
        res, err = replay_gen.run_driver(info, '\n'.join(lines) + '\n')
        data['native_script'] = lines; data['native_result'] = res
        if res.get('sanitizer') or res.get('exit', 0) != 0:
            return True, 'sanitizer report / crash in the real codec: %s' % str(res.get('sanitizer', res.get('exit')))[:300]
        if 'emitted' not in res: return None, 'no result from the native driver'
        if clause.startswith('RT3'):
            return res['consumed'] != res['emitted'], 'real codec: emitted %d bytes, decoding consumed %d' % (res['emitted'], res['consumed'])
        if clause.startswith('stream-good'):
            return res['good'] == 0, 'real codec: stream good after read = %d' % res['good']
        if want is not None and ('y:' + want) in res:
            k = 'in_' + classinfo.cid(want) + ('__size' if leaves[want]['kind'] == 'vec' else '')
            if k not in vals: return None, 'input not in trace'
            exp = replay_gen.parse_val(vals[k])
            width = 8 * classinfo.SIZES.get(leaves[want]['ctype'] or 'uint64_t', 8) if leaves[want]['kind'] == 'scalar' else 64
            mask = (1 << width) - 1
            got = res['y:' + want] & mask
            if bc.is_library_derived(info, cn, leaves[want]): return None, 'library-derived member'
            return got != (exp & mask), 'real codec: wrote %s = %d, read back %d' % (want, exp & mask, got)
        return None, 'clause %s has no native observation point' % clause
    return replayer


def main():
    meta = core.ensure_extracted()
    info = classinfo.Info(meta)
    nmax = 8 if core.tier() == 'quick' else 24
    only = [a for a in sys.argv[1:] if not a.startswith('-') and a not in ('quick', 'thorough')]
    known = {k['job']: k for k in core.load_known() if k.get('property') == 'C01' and k.get('status') == 'open' and k.get('job')}
    jobs = []
    for cn in classes_for(info):
        if only and cn not in only: continue
        k = known.get('C01_%s_roundtrip' % cn)
        jobs += rt_jobs(info, cn, nmax, extra_assume=k['exclude_requires'] if k else None)
    comp = []
    for cn in classes_for(info):
        if only and cn not in only: continue
        k = known.get('C01_%s_roundtrip' % cn)
        if k: comp += rt_jobs(info, cn, nmax, extra_assume='!(%s)' % k['exclude_requires'], suffix='__finding')
    # the length dimension beyond the enumerated sizes and the stream stage between write() and read(): the count-level
    # encoder contract of every class (C03: every container emitted whole, objectSize == bytes emitted, for EVERY length)
    # and the byte-FIFO contract of the in-memory stream (C15) are discharged here as well, under C01 labels
    borrowed = []
    if not only:
        from checks import c03, c15
        k3 = {k['job']: k for k in core.load_known() if k.get('property') == 'C03' and k.get('status') == 'open' and k.get('job')}
        for cn in info.codec_classes():
            kk = k3.get('C03_%s_write' % cn)
            borrowed.append(core.borrow(c03.harness(info, cn, extra_requires=kk['exclude_requires'] if kk else None), 'C03', 'C01'))
        borrowed += [core.borrow(j, 'C15', 'C01') for j in c15.jobs(1, 600) if j.name.split('UncompressedFile_')[-1] == 'read']
        borrowed += [core.borrow(j, 'C15', 'C01') for j in c15.jobs(2, 600) if j.name.split('UncompressedFile_')[-1] == 'write']     # 2 held containers: a write that crosses a boundary
    rep = core.Report('C01')
    rep.assumptions = ['payload content round trip is checked for container lengths <= %d only (bounded stand-in); the length dimension beyond that is covered at count level by C03 (emitted == objectSize for every length) and C10 (consumption)' % nmax,
                       'stream semantics of the BYTES flavour are those C15 proves of UncompressedFile',
                       'threads, zlib and the file system are not part of these obligations (C04/C05/C08/C15/C16 carry the stage contracts)']
    results = core.keep_property(core.run_jobs(jobs + comp + borrowed), 'C01')
    cres = [r for r in results if r.job.name.endswith('__finding')]
    results = [r for r in results if not r.job.name.endswith('__finding')]
    rep.add_results(results)
    import re as _re
    seen_k = {}
    for r in cres:
        base = _re.sub(r'(_v\d+)?__finding$', '', r.job.name)
        k = known[base]
        st = seen_k.setdefault(base, {'failed': 0, 'ok': 0, 'other': []})
        if r.status == 'failed': st['failed'] += 1
        elif r.status in ('ok',): st['ok'] += 1
        elif 'canary' in r.reason: st['ok'] += 1     # this layout variant does not intersect the witness region
        else: st['other'].append('%s: %s' % (r.job.name, r.reason))
    for base, st in seen_k.items():
        k = known[base]
        if st['failed']:
            rep.known.append('%s - %s [witness: %s]' % (', '.join(k.get('labels', [])), k['what'], k['witness']))
        elif not st['other']:
            rep.known.append('%s - listed finding no longer reproduces (%s)' % (', '.join(k.get('labels', [])), k['what']))
        rep.inconclusive += st['other']
    core.triage(rep, results, info, replayer=make_replayer(info))
    rep.validate_translation(info)
    return rep.finish('proof', 'goto-cc | cbmc --unwind N+2 --unwinding-assertions ' + ' '.join(bc.FLAGS) + ' (explicit round-trip harness on the extracted codecs, BYTES stream model)',
                      core.TRUSTED_BASE)

if __name__ == '__main__':
    core.main_wrapper(main)
