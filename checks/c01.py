"""C01 - write-then-read returns the same objects (codec inverse RT1 + stage contracts).

Part 1 (this file): for every creatable class D, read(write(x)) == x member-wise in the BYTES flavour:
   every scalar member symbolic over its full width (incl. stale size/length fields and every variant
   selector), every container with symbolic size <= N and symbolic content; asserts stream good,
   consumed == emitted (RT3, also cited by C03), no exception, and equality of every serialised member
   (containers: size and the element at one arbitrary ghost index).  Complete in scalar values;
   BOUNDED in payload length (N = 8 quick / 24 thorough; every residue mod 4 occurs twice).
Part 2: the stage transfer functions of File.cpp are decided by C04/C05/C08/C15/C16 and cited.
"""
import sys, os, json
sys.path.insert(0, os.path.dirname(os.path.dirname(os.path.abspath(__file__))))
from run import core, classinfo
from checks import bytes_common as bc


def rt_job(info, cn, nmax, prop='C01', extra_assume=None, suffix=''):
    rd = info.classes[cn]['vtable']['read']; wr = info.classes[cn]['vtable']['write']
    src = bc.prelude(info, cn, nmax)
    src += bc.havoc_decls(info, cn, nmax)
    cap = bc.stream_cap(info, cn, nmax)
    src += 'void harness(void)\n{\n    struct %s x, y; size_t k;\n' % cn
    src += '    %s_ctor(&x); %s_ctor(&y);\n' % (cn, cn)
    src += bc.havoc_inputs(info, cn, nmax)
    src += bc.populate(info, cn, 'x', nmax)
    if extra_assume: src += '    __CPROVER_assume(%s);\n' % extra_assume
    src += '    __CPROVER_assert(vb_exc == 0, "%s/%s/roundtrip/setup-no-exception");\n' % (prop, cn)
    src += '    uint8_t buf[%d]; struct AbstractFile f; f.buf = buf; f.cap = %d; f.g = 0; f.p = 0; f.fileSize = INT64_MAX; f.rdstate = 0; f.gcount = 0; f.hdr_end = -1;\n' % (cap, cap)
    n = [1]
    def A(cond, label):
        nonlocal src
        src += '    __CPROVER_assert(%s, "%s");\n' % (cond, label); n[0] += 1
    src += '    %s(%s, &f);\n' % (wr['fn'], '&x' if not wr['self'] else '&x.' + wr['self'])
    A('vb_exc == 0', '%s/%s/roundtrip/write-raises-no-exception' % (prop, cn))
    src += '    f.fileSize = f.p;\n'
    src += '    %s(%s, &f);\n' % (rd['fn'], '&y' if not rd['self'] else '&y.' + rd['self'])
    A('vb_exc == 0', '%s/%s/roundtrip/read-raises-no-exception' % (prop, cn))
    A('f.rdstate == 0', '%s/%s/roundtrip/stream-good-after-read' % (prop, cn))
    A('f.g == f.p', '%s/%s/roundtrip/RT3-decoding-consumes-exactly-what-was-emitted' % (prop, cn))
    bc.compare_members(info, cn, '%s/%s/roundtrip' % (prop, cn), A)
    A('0', 'canary')
    src += '}\n'
    return core.Job('%s_%s_roundtrip%s' % (prop, cn, suffix), src, route='harness', unwind=nmax + 2,
                    functions=['%s::write' % cn, '%s::read' % cn], canary_ids=['harness.assertion.%d' % n[0]],
                    timeout=600 if nmax <= 8 else 1500, flags=bc.FLAGS,
                    bounded='payload containers <= %d elements (unwinding assertions on); scalars full width' % nmax)


def classes_for(info):
    return [c for c in info.codec_classes() if info.is_object(c) and info.class_codes(c)] + ['LogContainer'] \
        if False else [c for c in info.codec_classes() if info.is_object(c) and (info.class_codes(c))]


def main():
    meta = core.ensure_extracted()
    info = classinfo.Info(meta)
    nmax = 8 if core.tier() == 'quick' else 24
    only = [a for a in sys.argv[1:] if not a.startswith('-') and a not in ('quick', 'thorough')]
    known = {k['job']: k for k in core.load_known() if k.get('property') == 'C01' and k.get('status') == 'open' and k.get('job')}
    jobs = []
    for cn in classes_for(info):
        if only and cn not in only: continue
        k = known.get('C01_%s_roundtrip' % cn)
        jobs.append(rt_job(info, cn, nmax, extra_assume=k['exclude_requires'] if k else None))
    comp = []
    for cn in classes_for(info):
        if only and cn not in only: continue
        k = known.get('C01_%s_roundtrip' % cn)
        if k: comp.append(rt_job(info, cn, nmax, extra_assume='!(%s)' % k['exclude_requires'], suffix='__finding'))
    rep = core.Report('C01')
    rep.assumptions = ['payload content round trip is checked for container lengths <= %d only (bounded stand-in); the length dimension beyond that is covered at count level by C03 (emitted == objectSize for every length) and C10 (consumption)' % nmax,
                       'stream semantics of the BYTES flavour are those C15 proves of UncompressedFile',
                       'threads, zlib and the file system are not part of these obligations (C04/C05/C08/C15/C16 carry the stage contracts)']
    results = core.run_jobs(jobs + comp)
    cres = [r for r in results if r.job.name.endswith('__finding')]
    results = [r for r in results if not r.job.name.endswith('__finding')]
    rep.add_results(results)
    for r in cres:
        k = known[r.job.name[:-len('__finding')]]
        if r.status == 'failed':
            rep.known.append('%s - %s [witness: %s]' % (', '.join(k.get('labels', [])), k['what'], k['witness']))
        elif r.status == 'ok':
            rep.known.append('%s - listed finding no longer reproduces (%s)' % (', '.join(k.get('labels', [])), k['what']))
        else:
            rep.inconclusive.append('%s: %s' % (r.job.name, r.reason))
    core.triage(rep, results, info)
    return rep.finish('proof', 'goto-cc | cbmc --unwind N+2 --unwinding-assertions ' + ' '.join(bc.FLAGS) + ' (explicit round-trip harness on the extracted codecs, BYTES stream model)',
                      core.TRUSTED_BASE)

if __name__ == '__main__':
    core.main_wrapper(main)
