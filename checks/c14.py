"""C14 - output bytes are a deterministic function of objects and configuration.

2-safety by self-composition on the extracted codecs (BYTES flavour, concrete container sizes as in C01):
 * DET: two objects in two independently nondeterministic memory backgrounds, constructed and then given the
   same value for every declared data member, are written to two streams => equal length, equal bytes (ghost index).
 * DEF: two objects that are only constructed (nothing assigned) in two backgrounds => equal bytes
   (untouched reserved fields come out of the constructor determined).
 * PAD: bytes emitted beyond objectSize (alignment padding) are zero; AbstractFile::skipp is the real extracted body.
 * the container cut depends on counts only: UncompressedFile::read's gcount clause (C15) and
   File::uncompressedFile2CompressedFile (C04) are cited, not re-proved here.
"""
import sys, os, json
sys.path.insert(0, os.path.dirname(os.path.dirname(os.path.abspath(__file__))))
from run import core, classinfo
from checks import bytes_common as bc
from checks.c01 import size_vectors, classes_for


def det_job(info, cn, nmax, only_scen=None):
    wr = info.classes[cn]['vtable']['write']
    vecs = [l for l in info.leaves(cn) if l['kind'] == 'vec']
    src = bc.prelude(info, cn, nmax)
    src += bc.havoc_decls(info, cn, nmax)
    cap = bc.stream_cap(info, cn, nmax)
    ohb = info.ohb(cn); O = (ohb + '.') if ohb else ''
    scen = bc.optional(info).get(cn, {}).get('scenarios') or [{}]
    if only_scen is not None: scen = [scen[only_scen]]
    sel_paths = sorted({k for sc in scen for k in sc})
    lbp = {l['path']: l for l in info.leaves(cn)}
    params = ', '.join(['size_t s%d' % i for i in range(len(vecs))] + ['int populate'] +
                       ['%s c%d' % (lbp[sp]['ctype'], i) for i, sp in enumerate(sel_paths)])
    src += 'static void scenario(%s)\n{\n    struct %s x1, x2; size_t j;\n    vb_exc = 0;\n' % (params, cn)
    src += '    %s_ctor(&x1); %s_ctor(&x2);\n' % (cn, cn)
    src += bc.havoc_inputs(info, cn, nmax)
    for i, v in enumerate(vecs):
        src += '    in_%s__size = s%d;\n' % (classinfo.cid(v['path']), i)
    for i, sp in enumerate(sel_paths):
        src += '    in_%s = c%d;\n' % (classinfo.cid(sp), i)
    src += '    if (populate) {\n' + bc.populate(info, cn, 'x1', nmax) + bc.populate(info, cn, 'x2', nmax) + '    }\n'
    src += '    uint8_t b1[%d], b2[%d]; struct AbstractFile f1, f2;\n' % (cap, cap)
    for k in ('1', '2'):
        src += '    f%s.buf = b%s; f%s.cap = %d; f%s.g = 0; f%s.p = 0; f%s.fileSize = INT64_MAX; f%s.rdstate = 0; f%s.gcount = 0; f%s.hdr_end = -1;\n' % (k, k, k, cap, k, k, k, k, k, k)
    sx1 = '&x1' if not wr['self'] else '&x1.' + wr['self']
    sx2 = '&x2' if not wr['self'] else '&x2.' + wr['self']
    src += '    %s(%s, &f1);\n    %s(%s, &f2);\n' % (wr['fn'], sx1, wr['fn'], sx2)
    src += '    __CPROVER_assert(vb_exc == 0, "C14/%s/write/no-exception");\n' % cn
    src += '    __CPROVER_assert(f1.p == f2.p, "C14/%s/write/DET-same-length-in-two-memory-backgrounds");\n' % cn
    src += '    __CPROVER_assert(f1.p != f2.p || j >= (size_t)f1.p || b1[j] == b2[j], "C14/%s/write/DET-same-bytes-in-two-memory-backgrounds");\n' % cn
    src += '    __CPROVER_assert(f1.p - (int64_t)x1.%sobjectSize > 3 || j < (size_t)x1.%sobjectSize || j >= (size_t)f1.p || b1[j] == 0, "C14/%s/write/PAD-bytes-beyond-objectSize-are-zero");\n' % (O, O, cn)
    src += '}\n'
    svs = size_vectors(len(vecs), min(nmax, 4))
    src += 'void harness(void)\n{\n'
    for sc in scen:
        sel = ['%du' % sc[sp] for sp in sel_paths]
        for sv in svs:
            src += '    scenario(%s);\n' % ', '.join([str(x) for x in sv] + ['1'] + sel)
    src += '    scenario(%s);\n' % ', '.join(['0'] * len(vecs) + ['0'] + ['0'] * len(sel_paths))
    src += '    __CPROVER_assert(0, "canary");\n}\n'
    return core.Job('C14_%s_write%s' % (cn, '' if only_scen is None else '_v%d' % only_scen), src, route='harness', unwind=max(cap, 600) + 2,
                    functions=['%s::write' % cn, '%s::%s' % (cn, cn), 'AbstractFile::skipp'], canary_ids=['harness.assertion.1'],
                    timeout=300, flags=bc.FLAGS + ["--max-field-sensitivity-array-size", "4096"],
                    bounded=('container sizes enumerated over %s; contents and scalars symbolic' % (svs,)) if vecs else None)


def skipp_job(info):
    src = bc.prelude(info, 'AbstractFile', 16)
    src += '''static void scenario(int64_t n)
{
    uint8_t buf[40]; size_t j; struct AbstractFile f; f.buf = buf; f.cap = 40; f.g = 0; f.p = 3; f.fileSize = INT64_MAX; f.rdstate = 0; f.gcount = 0; f.hdr_end = -1; vb_exc = 0;
    AbstractFile_skipp(&f, n);
    __CPROVER_assert(vb_exc == 0 && f.p == 3 + n, "C14/AbstractFile/skipp/emits-exactly-n-bytes");
    __CPROVER_assert(j < 3 || j >= (size_t)(3 + n) || buf[j] == 0, "C14/AbstractFile/skipp/the-bytes-are-zero");
}
void harness(void)
{
    scenario(0); scenario(1); scenario(2); scenario(3); scenario(15); scenario(16);
    __CPROVER_assert(0, "canary");
}
'''
    return core.Job('C14_AbstractFile_skipp', src, route='harness', unwind=60, functions=['AbstractFile::skipp'], canary_ids=['harness.assertion.1'],
                    timeout=120, flags=bc.FLAGS + ['--max-field-sensitivity-array-size', '4096'], bounded='skip lengths 0,1,2,3,15,16 (all the library uses)')


def main():
    meta = core.ensure_extracted()
    info = classinfo.Info(meta)
    nmax = 4 if core.tier() == 'quick' else 8
    only = [a for a in sys.argv[1:] if not a.startswith('-') and a not in ('quick', 'thorough')]
    jobs = []
    for cn in classes_for(info):
        if only and cn not in only: continue
        scen = bc.optional(info).get(cn, {}).get('scenarios')
        if scen: jobs += [det_job(info, cn, nmax, i) for i in range(len(scen))]
        else: jobs.append(det_job(info, cn, nmax))
    if not only:
        jobs.append(skipp_job(info))
        # the rest of the file: every byte of the 144-byte header and of the container header is a function of member values
        # (C04 layout obligations), and the container cut depends on byte counts only (C04 obligations of
        # uncompressedFile2CompressedFile: one read of exactly the container size, payload = what the stream delivered)
        from checks import c04, file_common
        jobs += [core.borrow(c04.stats_job(info), 'C04', 'C14'), core.borrow(c04.container_write_job(info), 'C04', 'C14')]
        for j in file_common.select(file_common.all_jobs(info), 'C04'):
            if 'uncompressedFile2CompressedFile' in j.name and 'called_from_close' not in j.name:
                j.name = j.name.replace('FILE_', 'C04_File_')
                jobs.append(core.borrow(j, 'C04', 'C14'))
    rep = core.Report('C14')
    rep.assumptions = ['zlib is deterministic (assumed contract); schedule independence is C07 (not applicable to this technique)',
                       'uninitialised storage is modelled as nondeterministic content, over-approximating every poison pattern',
                       'container-cut determinism is carried by C15 (gcount == min(n, fileSize - tellg)) and C04']
    results = core.keep_property(core.run_jobs(jobs), 'C14')
    rep.add_results(results)
    core.triage(rep, results, info)
    rep.validate_translation(info)
    return rep.finish('proof', 'goto-cc | cbmc --unwind --unwinding-assertions ' + ' '.join(bc.FLAGS) + ' (self-composition harness on the extracted codecs)',
                      core.TRUSTED_BASE)

if __name__ == '__main__':
    core.main_wrapper(main)
