"""C04 - finished files decode with an independent implementation of the container format.

The independent decoder is replaced by an independent DESCRIPTION of the format in the postconditions (written from
the property text):
 * FileStatistics::write (real body, byte-accurate stream): exactly 144 bytes; every byte is the little-endian image of
   the member the format places at that offset (layout table below), for all member values.
 * LogContainer::write (real body): 'LOBJ', headerSize 16, headerVersion 1, objectSize 32 + stored payload, type 10,
   method / uncompressed size verbatim at their offsets, the payload, then objectSize % 4 zero bytes.
 * LogContainer::compress / uncompress (real bodies) against the assumed zlib contract: method 0 = identity, method 2 =
   compress2(dst of compressBound(n) bytes, src, n, the configured level) trimmed to the returned length; anything else
   or a zlib error raises the library exception; uncompress succeeds only with exactly the declared size.
 * File::uncompressedFile2CompressedFile / close (checks/file_common.py): level -> method mapping, payload <= container
   size, one container per call, trailer iff restore points, header rewritten at offset 0.
zlib's own stream format (FLEVEL class, Adler-32) is produced by zlib and ASSUMED, not proved.
"""
import sys, os
sys.path.insert(0, os.path.dirname(os.path.dirname(os.path.abspath(__file__))))
from run import core, classinfo
from checks import file_common
from checks import bytes_common as bc

LAYOUT = [  # (offset, width, member expression, elements)
    (0, 4, 'signature'), (4, 4, 'statisticsSize'), (8, 4, 'apiNumber'), (12, 1, 'applicationId'), (13, 1, 'compressionLevel'),
    (14, 1, 'applicationMajor'), (15, 1, 'applicationMinor'), (16, 8, 'fileSize'), (24, 8, 'uncompressedFileSize'),
    (32, 4, 'objectCount'), (36, 4, 'applicationBuild'),
    (40, 2, 'measurementStartTime.year'), (42, 2, 'measurementStartTime.month'), (44, 2, 'measurementStartTime.dayOfWeek'),
    (46, 2, 'measurementStartTime.day'), (48, 2, 'measurementStartTime.hour'), (50, 2, 'measurementStartTime.minute'),
    (52, 2, 'measurementStartTime.second'), (54, 2, 'measurementStartTime.milliseconds'),
    (56, 2, 'lastObjectTime.year'), (58, 2, 'lastObjectTime.month'), (60, 2, 'lastObjectTime.dayOfWeek'), (62, 2, 'lastObjectTime.day'),
    (64, 2, 'lastObjectTime.hour'), (66, 2, 'lastObjectTime.minute'), (68, 2, 'lastObjectTime.second'), (70, 2, 'lastObjectTime.milliseconds'),
    (72, 8, 'restorePointsOffset'),
]


def le(member, width, off):
    return ' && '.join('buf[%d] == (uint8_t)((uint64_t)st.%s >> %d)' % (off + i, member, 8 * i) for i in range(width))


def stats_job(info):
    src = bc.prelude(info, 'FileStatistics', 16)
    src += 'void harness(void)\n{\n    struct FileStatistics st; FileStatistics_ctor(&st);\n'
    src += '    __CPROVER_assert(st.statisticsSize == 144 && st.signature == 0x47474F4Cu, "C04/FileStatistics/ctor/signature-LOGG-and-size-144");\n'
    src += '    { struct FileStatistics t; st = t; }    /* every member arbitrary */\n    size_t k;\n'
    src += '    uint8_t buf[160]; struct AbstractFile f; f.buf = buf; f.cap = 160; f.g = 0; f.p = 0; f.fileSize = INT64_MAX; f.rdstate = 0; f.gcount = 0; f.hdr_end = -1; vb_exc = 0;\n'
    src += '    FileStatistics_write(&st, &f);\n'
    src += '    __CPROVER_assert(vb_exc == 0 && f.p == 144, "C04/FileStatistics/write/emits-exactly-144-bytes");\n'
    n = 2
    for (off, w, m) in LAYOUT:
        src += '    __CPROVER_assert(%s, "C04/FileStatistics/write/offset-%d-is-%s-little-endian");\n' % (le(m, w, off), off, m)
        n += 1
    src += '    __CPROVER_assert(k >= 16 || (buf[80 + 4 * k] == (uint8_t)st.reservedFileStatistics.e[k] && buf[81 + 4 * k] == (uint8_t)(st.reservedFileStatistics.e[k] >> 8) && buf[82 + 4 * k] == (uint8_t)(st.reservedFileStatistics.e[k] >> 16) && buf[83 + 4 * k] == (uint8_t)(st.reservedFileStatistics.e[k] >> 24)), "C04/FileStatistics/write/offset-80-reserved-words");\n'
    src += '    __CPROVER_assert(FileStatistics_calculateStatisticsSize(&st) == 144, "C04/FileStatistics/calculateStatisticsSize-is-144");\n'
    src += '    __CPROVER_assert(0, "canary");\n}\n'
    return core.Job('C04_FileStatistics_write', src, route='harness', unwind=170, flags=bc.FLAGS + ['--max-field-sensitivity-array-size', '4096'],
                    functions=['FileStatistics::write', 'FileStatistics::calculateStatisticsSize'], canary_ids=['harness.assertion.%d' % (n + 3)], timeout=300)


def container_write_job(info):
    src = bc.prelude(info, 'LogContainer', 16)
    src += '''static void scenario(size_t n)
{
    struct LogContainer c; LogContainer_ctor(&c); size_t k; vb_exc = 0;
    { uint16_t m; c.compressionMethod = m; uint16_t r1; c.reservedLogContainer1 = r1; uint32_t r2; c.reservedLogContainer2 = r2; uint32_t us; c.uncompressedFileSize = us; uint32_t r3; c.reservedLogContainer3 = r3; }
    { uint32_t s; c.compressedFileSize = s; uint32_t os; c.b_ObjectHeaderBase.objectSize = os; uint16_t hs; c.b_ObjectHeaderBase.headerSize = hs; }   /* stale size fields */
    vec_uint8_t_resize(&c.compressedFile, n);
    uint8_t pl[16]; for (size_t i = 0; i < n; i++) c.compressedFile.data[i] = pl[i];
    uint8_t buf[64]; struct AbstractFile f; f.buf = buf; f.cap = 64; f.g = 0; f.p = 0; f.fileSize = INT64_MAX; f.rdstate = 0; f.gcount = 0; f.hdr_end = -1;
    LogContainer_write(&c, &f);
    uint32_t osz = 32 + (uint32_t)n;
    __CPROVER_assert(vb_exc == 0 && f.p == (int64_t)osz + osz % 4, "C04/LogContainer/write/emits-header-payload-and-objectSize-mod-4-padding");
    __CPROVER_assert(buf[0] == 'L' && buf[1] == 'O' && buf[2] == 'B' && buf[3] == 'J', "C04/LogContainer/write/signature-LOBJ");
    __CPROVER_assert(buf[4] == 16 && buf[5] == 0 && buf[6] == 1 && buf[7] == 0, "C04/LogContainer/write/headerSize-16-headerVersion-1");
    __CPROVER_assert(buf[8] == (uint8_t)osz && buf[9] == (uint8_t)(osz >> 8) && buf[10] == 0 && buf[11] == 0, "C04/LogContainer/write/objectSize-is-32-plus-stored-payload");
    __CPROVER_assert(buf[12] == 10 && buf[13] == 0 && buf[14] == 0 && buf[15] == 0, "C04/LogContainer/write/objectType-10");
    __CPROVER_assert(buf[16] == (uint8_t)c.compressionMethod && buf[17] == (uint8_t)(c.compressionMethod >> 8), "C04/LogContainer/write/compression-method-at-offset-16");
    __CPROVER_assert(buf[24] == (uint8_t)c.uncompressedFileSize && buf[25] == (uint8_t)(c.uncompressedFileSize >> 8) && buf[26] == (uint8_t)(c.uncompressedFileSize >> 16) && buf[27] == (uint8_t)(c.uncompressedFileSize >> 24), "C04/LogContainer/write/uncompressed-size-verbatim-at-offset-24");
    __CPROVER_assert(k >= n || buf[32 + k] == pl[k], "C04/LogContainer/write/payload-follows-the-32-byte-header");
    __CPROVER_assert(k >= osz % 4 || buf[osz + k] == 0, "C04/LogContainer/write/padding-bytes-are-zero");
    __CPROVER_assert(c.compressedFileSize == (uint32_t)n, "C04/LogContainer/write/compressedFileSize-refreshed-from-the-payload");
}
void harness(void)
{
    scenario(0); scenario(1); scenario(2); scenario(3); scenario(4); scenario(7);
    __CPROVER_assert(0, "canary");
}
'''
    return core.Job('C04_LogContainer_write', src, route='harness', unwind=70, flags=bc.FLAGS + ['--max-field-sensitivity-array-size', '4096'],
                    functions=['LogContainer::write'], canary_ids=['harness.assertion.1'], timeout=300,
                    bounded='payload sizes 0,1,2,3,4,7 (every residue mod 4); all field values symbolic')


ZLIB = r'''
#define VB_GHOST_AbstractFile int dummy;
#include "blf.h"
int vb_exc; int vb_caught;
size_t vb_alloc_cap;
/* std::vector model: buffers materialised with their exact (symbolic) size, contents not modelled */
void vec_uint8_t_init(struct vec_uint8_t *v) { v->data = 0; v->size = 0; }
void vec_uint8_t_free(struct vec_uint8_t *v) { v->size = 0; }
void vec_uint8_t_resize(struct vec_uint8_t *v, size_t n) { if (n > vb_alloc_cap) { vb_exc = VB_EXC_STD; return; } v->data = (uint8_t *)malloc(n ? n : 1); __CPROVER_assume(v->data != 0); v->size = n; }
void vec_uint8_t_assign(struct vec_uint8_t *d, const struct vec_uint8_t *s) { if (d == s) return; vec_uint8_t_resize(d, s->size); }
/* assumed zlib contract */
int z_calls; const uint8_t *z_src; unsigned long z_srclen, z_dstcap, z_bound_arg, z_bound, z_outlen; int z_level, z_ret; uint8_t *z_dst;
unsigned long vb_zlib_compressBound(unsigned long n) { z_bound_arg = n; unsigned long b; __CPROVER_assume(b >= n && b <= n + n / 8 + 64); z_bound = b; return b; }
int vb_zlib_compress2(uint8_t *dest, unsigned long *destLen, const uint8_t *source, unsigned long sourceLen, int level)
{
    __CPROVER_assert(__CPROVER_w_ok(dest, *destLen) && (sourceLen == 0 || __CPROVER_r_ok(source, sourceLen)), "zlib compress2 precondition: buffers of the sizes passed");
    z_calls++; z_dst = dest; z_dstcap = *destLen; z_src = source; z_srclen = sourceLen; z_level = level;
    int r; z_ret = r; if (r == 0) { unsigned long o; __CPROVER_assume(o <= *destLen); *destLen = o; z_outlen = o; }
    return r;
}
int vb_zlib_uncompress(uint8_t *dest, unsigned long *destLen, const uint8_t *source, unsigned long sourceLen)
{
    __CPROVER_assert(__CPROVER_w_ok(dest, *destLen) && (sourceLen == 0 || __CPROVER_r_ok(source, sourceLen)), "zlib uncompress precondition: buffers of the sizes passed");
    z_calls++; z_dst = dest; z_dstcap = *destLen; z_src = source; z_srclen = sourceLen;
    int r; z_ret = r; unsigned long o; __CPROVER_assume(o <= *destLen); *destLen = o; z_outlen = o;
    return r;
}
'''


def fn_text(cls, name):
    import re
    txt = open(os.path.join(core.GEN, cls + '.c')).read()
    parts = re.split(r'(?=/\* from \w+\.(?:cpp|h):\d+ \*/\n)', txt)
    for p in parts[1:]:
        if re.search(r'\b%s\(' % re.escape(name), p.split('{')[0]): return p
    raise core.Inconclusive('%s not found in the extracted %s.c' % (name, cls))


def compress_jobs(info):
    jobs = []
    src = ZLIB + fn_text('LogContainer', 'LogContainer_compress')
    src += '''void harness(void)
{
    struct LogContainer c; uint16_t method; int level; z_calls = 0; vb_exc = 0; { size_t t; vb_alloc_cap = t; }
    __CPROVER_assume(c.uncompressedFile.size == (size_t)c.uncompressedFileSize && c.uncompressedFileSize <= 0x10000000u);
    c.uncompressedFile.data = (uint8_t *)malloc(c.uncompressedFile.size ? c.uncompressedFile.size : 1); __CPROVER_assume(c.uncompressedFile.data != 0);
    c.compressedFile.data = 0; c.compressedFile.size = 0;
    uint32_t us = c.uncompressedFileSize;
    LogContainer_compress(&c, method, level);
    __CPROVER_assert(method == 0 || method == 2 || vb_exc == VB_EXC_BLF, "C04/LogContainer/compress/unknown-method-raises-the-library-exception");
    __CPROVER_assert(method != 0 || vb_exc != 0 || (z_calls == 0 && c.compressionMethod == 0 && c.compressedFile.size == c.uncompressedFile.size && c.compressedFileSize == us), "C04/LogContainer/compress/method-0-stores-the-payload-as-is");
    __CPROVER_assert(method != 2 || vb_exc == VB_EXC_STD || (z_calls == 1 && z_bound_arg == us && z_dstcap == z_bound && z_src == c.uncompressedFile.data && z_srclen == us && z_level == level), "C04/LogContainer/compress/method-2-calls-compress2-with-a-compressBound-buffer-the-payload-and-the-configured-level");
    __CPROVER_assert(method != 2 || vb_exc != 0 || (z_ret == 0 && c.compressionMethod == 2 && c.compressedFileSize == (uint32_t)z_outlen && c.compressedFile.size == (size_t)c.compressedFileSize), "C04/LogContainer/compress/method-2-result-is-trimmed-to-the-length-zlib-returned");
    __CPROVER_assert(method != 2 || z_calls == 0 || z_ret == 0 || vb_exc == VB_EXC_BLF, "C04/LogContainer/compress/zlib-error-raises-the-library-exception");
    __CPROVER_assert(c.uncompressedFileSize == us, "C04/LogContainer/compress/uncompressed-size-untouched");
    __CPROVER_assert(0, "canary");
}
'''
    jobs.append(core.Job('C04_LogContainer_compress', src, route='harness', flags=['--bounds-check', '--pointer-check', '--signed-overflow-check', '--object-bits', '12'],
                         functions=['LogContainer::compress'], canary_ids=['harness.assertion.7'], timeout=300))
    src = ZLIB + fn_text('LogContainer', 'LogContainer_uncompress')
    src += '''void harness(void)
{
    struct LogContainer c; z_calls = 0; vb_exc = 0; { size_t t; vb_alloc_cap = t; }
    __CPROVER_assume(c.compressedFile.size == (size_t)c.compressedFileSize && c.compressedFileSize <= 0x10000000u);   /* as LogContainer::read leaves it */
    c.compressedFile.data = (uint8_t *)malloc(c.compressedFile.size ? c.compressedFile.size : 1); __CPROVER_assume(c.compressedFile.data != 0);
    c.uncompressedFile.data = 0; c.uncompressedFile.size = 0;
    LogContainer_uncompress(&c);
    __CPROVER_assert(vb_exc != 0 || c.uncompressedFile.size == (size_t)c.uncompressedFileSize, "C08/LogContainer/uncompress/succeeds-only-with-exactly-the-declared-uncompressed-size");
    __CPROVER_assert(c.compressionMethod == 0 || c.compressionMethod == 2 || vb_exc == VB_EXC_BLF, "C08/LogContainer/uncompress/unknown-method-raises-the-library-exception");
    __CPROVER_assert(c.compressionMethod != 2 || vb_exc == VB_EXC_STD || (z_calls == 1 && z_src == c.compressedFile.data && z_srclen == c.compressedFileSize && z_dstcap == c.uncompressedFileSize), "C08/LogContainer/uncompress/inflates-the-stored-payload-into-a-buffer-of-the-declared-size");
    __CPROVER_assert(c.compressionMethod != 2 || z_calls == 0 || (z_ret == 0 && z_outlen == c.uncompressedFileSize) || vb_exc == VB_EXC_BLF, "C08/LogContainer/uncompress/zlib-error-or-size-mismatch-raises-the-library-exception");
    __CPROVER_assert(0, "canary");
}
'''
    jobs.append(core.Job('C04_LogContainer_uncompress', src, route='harness', flags=['--bounds-check', '--pointer-check', '--signed-overflow-check', '--object-bits', '12'],
                         functions=['LogContainer::uncompress'], canary_ids=['harness.assertion.5'], timeout=300))
    return jobs


def compressed_file_job(info):
    """CompressedFile is a mutex around std::fstream: every method must forward to the fstream operation of the same
       name with the same arguments and return its result (assumed fstream contract recorded by stubs)"""
    src = '''#define VB_GHOST_AbstractFile int dummy;
#include "blf.h"
int vb_exc; int vb_caught;
int z_op; struct vb_fstream *z_f; const char *z_s; int64_t z_n, z_off, z_pos, z_ret; int z_way, z_mode; _Bool z_b;
int64_t vb_fstream_gcount(struct vb_fstream *f) { z_op = 1; z_f = f; return z_ret; }
void vb_fstream_read(struct vb_fstream *f, char *s, int64_t n) { z_op = 2; z_f = f; z_s = s; z_n = n; }
int64_t vb_fstream_tellg(struct vb_fstream *f) { z_op = 3; z_f = f; return z_ret; }
void vb_fstream_seekg(struct vb_fstream *f, int64_t off, int way) { z_op = 4; z_f = f; z_off = off; z_way = way; }
void vb_fstream_write(struct vb_fstream *f, const char *s, int64_t n) { z_op = 5; z_f = f; z_s = s; z_n = n; }
int64_t vb_fstream_tellp(struct vb_fstream *f) { z_op = 6; z_f = f; return z_ret; }
_Bool vb_fstream_good(struct vb_fstream *f) { z_op = 7; z_f = f; return z_b; }
_Bool vb_fstream_eof(struct vb_fstream *f) { z_op = 8; z_f = f; return z_b; }
void vb_fstream_open(struct vb_fstream *f, const char *name, int mode) { z_op = 9; z_f = f; z_s = name; z_mode = mode; }
_Bool vb_fstream_is_open(struct vb_fstream *f) { z_op = 10; z_f = f; return z_b; }
void vb_fstream_close(struct vb_fstream *f) { z_op = 11; z_f = f; }
void vb_fstream_seekp(struct vb_fstream *f, int64_t pos) { z_op = 12; z_f = f; z_pos = pos; }
void AbstractFile_ctor(struct AbstractFile *a) { } void AbstractFile_dtor(struct AbstractFile *a) { }
#include "CompressedFile.c"
void harness(void)
{
    struct CompressedFile c; char b[4]; int64_t n, off; int way, mode; { int64_t t; z_ret = t; _Bool u; z_b = u; }
    __CPROVER_assert(CompressedFile_gcount(&c) == z_ret && z_op == 1 && z_f == &c.m_file, "C04/CompressedFile/gcount-forwards-to-the-fstream");
    CompressedFile_read(&c, b, n);
    __CPROVER_assert(z_op == 2 && z_f == &c.m_file && z_s == b && z_n == n, "C04/CompressedFile/read-forwards-pointer-and-count");
    __CPROVER_assert(CompressedFile_tellg(&c) == z_ret && z_op == 3, "C04/CompressedFile/tellg-forwards");
    CompressedFile_seekg(&c, off, way);
    __CPROVER_assert(z_op == 4 && z_off == off && z_way == way, "C04/CompressedFile/seekg-forwards-offset-and-direction");
    CompressedFile_write(&c, b, n);
    __CPROVER_assert(z_op == 5 && z_s == b && z_n == n && z_f == &c.m_file, "C04/CompressedFile/write-forwards-pointer-and-count");
    __CPROVER_assert(CompressedFile_tellp(&c) == z_ret && z_op == 6, "C04/CompressedFile/tellp-forwards");
    __CPROVER_assert(CompressedFile_good(&c) == z_b && z_op == 7, "C04/CompressedFile/good-forwards");
    __CPROVER_assert(CompressedFile_eof(&c) == z_b && z_op == 8, "C04/CompressedFile/eof-forwards");
    CompressedFile_open(&c, b, mode);
    __CPROVER_assert(z_op == 9 && z_s == b && z_mode == mode, "C04/CompressedFile/open-forwards-name-and-mode");
    __CPROVER_assert(CompressedFile_is_open(&c) == z_b && z_op == 10, "C04/CompressedFile/is_open-forwards");
    CompressedFile_seekp(&c, off);
    __CPROVER_assert(z_op == 12 && z_pos == off, "C04/CompressedFile/seekp-forwards-the-position");
    CompressedFile_close(&c);
    __CPROVER_assert(z_op == 11 && z_f == &c.m_file, "C04/CompressedFile/close-forwards");
    __CPROVER_assert(0, "canary");
}
'''
    return core.Job('C04_CompressedFile_forwarding', src, route='harness', flags=['--bounds-check', '--pointer-check', '--signed-overflow-check', '--object-bits', '12'],
                    functions=['CompressedFile::*'], canary_ids=['harness.assertion.13'], timeout=120)


def extra(info):
    from checks import c15
    # the encoder's bytes reach the containers unmodified and in order: the stream's write/read contract (C15)
    stream = [core.borrow(j, 'C15', 'C04') for j in c15.jobs(1, 600) if j.name.split('UncompressedFile_')[-1] in ('read', 'nextLogContainer', 'setters_accessors_predicates')]
    stream += [core.borrow(j, 'C15', 'C04') for j in c15.jobs(2, 600) if j.name.split('UncompressedFile_')[-1] == 'write']     # 2 held containers: a write that crosses a boundary
    return [stats_job(info), container_write_job(info), compressed_file_job(info)] + compress_jobs(info) + stream


if __name__ == '__main__':
    core.main_wrapper(lambda: file_common.run_property('C04', extra_jobs=extra, assumptions=[
        'zlib produces a valid stream for the level it is given, inflating to the original bytes (assumed contract; the FLEVEL class and Adler-32 are zlib\'s)',
        'the concatenated payload equals the concatenation of the object encodings: composition of C03 (each object emits objectSize bytes), C15 (byte FIFO) and the container cut proved here']))
