"""C08 - a file cut off at any byte reads as an unmodified prefix of its objects.

Read-side transfer functions with a stream that ends at an ARBITRARY symbolic position (all crash points in one query
per function): LogContainer::uncompress (real body, assumed zlib contract), File::compressedFile2UncompressedFile (one
complete container appended or the library exception and nothing appended), File::uncompressedFile2ReadWriteQueue (one
completely decoded object pushed or nothing), worker loops stop and declare end of stream (C06 labels), codec reads on
a truncated stream: R6 - for every class, a decode during which any stream read was cut short by the (arbitrary)
declared end never finishes with the stream good and without exception, so the object is not delivered.  Prefix-exactness and monotonicity then follow
from the spec function delivered(cut) = objects wholly inside containers wholly below cut, which is monotone by
construction; zlib's rejection of a damaged-but-complete stream is assumed.
"""
import sys, os
sys.path.insert(0, os.path.dirname(os.path.dirname(os.path.abspath(__file__))))
from run import core
from checks import file_common, c04, c10, c15
def stream_jobs():
    """the stream's state law (C15): a request past the declared end sets eof|fail, nothing else resets it - what 'cut short => not delivered' rests on"""
    return [core.borrow(j, 'C15', 'C08') for j in c15.jobs(1, 600) if j.name.split('UncompressedFile_')[-1] in ('read', 'seekg', 'setters_accessors_predicates')]


def rename(j):
    """the hostile-stream decode jobs of C10 also carry the truncation clause R6 (reported here)"""
    j.name = j.name.replace('C10_', 'C08_')
    return j


if __name__ == '__main__':
    core.main_wrapper(lambda: file_common.run_property('C08', extra_jobs=lambda info: c04.compress_jobs(info)[1:] + [rename(j) for j in c10.codec_jobs(info, [])] + stream_jobs(), assumptions=[
        'zlib returns Z_OK with the exact length only for an intact stream (assumed contract)',
        'truncation of the byte stream is modelled by an arbitrary declared end of the abstract streams; the composition over a whole file (prefix-exactness, monotonicity) is an argument over the spec function, not a machine-checked obligation']))
