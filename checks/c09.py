"""C09 - unknown object types and filler bytes are skipped without losing neighbours.

 * ObjectHeaderBase::read on the REAL body with a LOOP CONTRACT on the signature resynchronisation loop
   (goto-instrument --apply-loop-contracts): for an arbitrary byte buffer of arbitrary length (<= 64 KiB object
   bound) and an arbitrary start position, if the call returns with the stream good and no exception then
   the signature it accepted is the FIRST 'LOBJ' at or after the start position (stated for one arbitrary ghost
   position K, which avoids quantifiers), the header fields are the bytes that follow it, tellg is 16 past it;
   the loop terminates (decreases clause).  Unbounded in filler length and content.
 * the same function against the abstract contract used by C10 (ohb_read_stub.h): exception only with eof, etc.
 * File::uncompressedFile2ReadWriteQueue, unknown branch and relative seek: see checks/file_common.py (C09 part).
"""
import sys, os
sys.path.insert(0, os.path.dirname(os.path.dirname(os.path.abspath(__file__))))
from run import core, classinfo

FLAGS = ['--bounds-check', '--pointer-check', '--signed-overflow-check', '--object-bits', '12']


def ohb_read_job():
    src = r'''
#include <stdint.h>
#define VB_GHOST_AbstractFile const uint8_t *buf; int64_t g; int64_t p; int64_t fileSize; int rdstate; int64_t gcount; int64_t hdr_end;
#define VB_MARK_HDR_END(os) ((void)0)
/* ghost state of the proof (harness globals): start position, buffer, one arbitrary position K */
const uint8_t *buf0; int64_t fs0; int64_t g0; int64_t K;
#define SIGAT(q) (buf0[q] == 0x4c && buf0[(q) + 1] == 0x4f && buf0[(q) + 2] == 0x42 && buf0[(q) + 3] == 0x4a)
#define LOOP_ObjectHeaderBase_read_1 \
    __CPROVER_assigns(tmp, is->g, is->rdstate, is->gcount, self->signature) \
    __CPROVER_loop_invariant(is->buf == buf0 && is->fileSize == fs0 && g0 <= is->g && is->g <= fs0) \
    __CPROVER_loop_invariant(!(g0 <= K && K < is->g && K + 4 <= fs0 && SIGAT(K)) || (tmp == 0x4A424F4Cu && K == is->g - 4)) \
    __CPROVER_loop_invariant(tmp != 0x4A424F4Cu || is->rdstate != 0 || (is->g >= g0 + 4 && SIGAT(is->g - 4))) \
    __CPROVER_loop_invariant(is->rdstate == 0 || is->g == fs0) \
    __CPROVER_loop_invariant(tmp != 0x4A424F4Cu || self->signature == 0x4A424F4Cu) \
    __CPROVER_decreases(fs0 - is->g + (tmp != 0x4A424F4Cu ? 1 : 0))
#include "blf.h"
int vb_exc; int vb_caught;
#include "af_buf_stub.h"
#include "ObjectHeaderBase.c"
void harness(void)
{
    int64_t len; __CPROVER_assume(len >= 0 && len <= 65536);
    uint8_t *b = (uint8_t *)malloc(len ? len : 1); __CPROVER_assume(b != 0);
    struct ObjectHeaderBase o; ObjectHeaderBase_ctor(&o, 0, 0);
    struct AbstractFile is; is.buf = b; is.fileSize = len; is.rdstate = 0; is.gcount = 0;
    __CPROVER_assume(is.g >= 0 && is.g <= len);
    buf0 = b; fs0 = len; g0 = is.g; vb_exc = 0;
    { int64_t t; K = t; }   /* the observed position is arbitrary (globals are zero-initialised in C) */
    __CPROVER_assume(K >= 0 && K <= len);
    ObjectHeaderBase_read(&o, &is);
    __CPROVER_assert(vb_exc == 0 || (vb_exc == VB_EXC_BLF && (is.rdstate & IOS_eofbit) != 0), "C09/ObjectHeaderBase/read/exception-only-at-end-of-stream");
    __CPROVER_assert(is.g >= g0 && is.g <= len, "C09/ObjectHeaderBase/read/position-between-start-and-declared-end");
    __CPROVER_assert(is.rdstate == 0 || is.g == len, "C09/ObjectHeaderBase/read/a-cut-short-read-has-consumed-the-stream-to-its-declared-end");
    if (vb_exc == 0 && is.rdstate == 0) {
        int64_t found = is.g - 16;
        __CPROVER_assert(found >= g0, "C09/ObjectHeaderBase/read/consumes-filler-plus-one-16-byte-base-header");
        __CPROVER_assert(SIGAT(found), "C09/ObjectHeaderBase/read/accepted-signature-is-LOBJ-in-the-stream");
        __CPROVER_assert(!(g0 <= K && K < found && SIGAT(K)), "C09/ObjectHeaderBase/read/no-earlier-signature-was-skipped-(first-LOBJ-at-or-after-start)");
        __CPROVER_assert(o.signature == 0x4A424F4Cu, "C09/ObjectHeaderBase/read/signature-member");
        __CPROVER_assert(o.headerSize == (uint16_t)(b[found + 4] | (b[found + 5] << 8)), "C09/ObjectHeaderBase/read/headerSize-is-bytes-4-5-after-the-signature-start");
        __CPROVER_assert(o.headerVersion == (uint16_t)(b[found + 6] | (b[found + 7] << 8)), "C09/ObjectHeaderBase/read/headerVersion-is-bytes-6-7");
        __CPROVER_assert(o.objectSize == ((uint32_t)b[found + 8] | ((uint32_t)b[found + 9] << 8) | ((uint32_t)b[found + 10] << 16) | ((uint32_t)b[found + 11] << 24)), "C09/ObjectHeaderBase/read/objectSize-is-bytes-8-11");
        __CPROVER_assert(o.objectType == ((uint32_t)b[found + 12] | ((uint32_t)b[found + 13] << 8) | ((uint32_t)b[found + 14] << 16) | ((uint32_t)b[found + 15] << 24)), "C09/ObjectHeaderBase/read/objectType-is-bytes-12-15");
    }
    __CPROVER_assert(0, "canary");
    __CPROVER_assert(!(vb_exc == 0 && is.rdstate == 0 && is.g - 16 > g0 + 9), "canary-filler");
}
'''
    j = core.Job('C09_ObjectHeaderBase_read', src, route='harness', loop_contracts=True, flags=FLAGS,
                    functions=['ObjectHeaderBase::read'], timeout=900,
                    labels={'re:loop invariant before entry': 'C09/ObjectHeaderBase/read/resync-loop-invariant-holds-on-entry',
                            're:loop invariant is preserved': 'C09/ObjectHeaderBase/read/resync-loop-invariant-preserved-(no-signature-skipped-by-the-seek-back)',
                            're:decreases clause': 'C09/ObjectHeaderBase/read/resync-loop-terminates-(every-iteration-advances)',
                            're:loop instrumentation': 'C09/ObjectHeaderBase/read/loop-instrumentation-complete',
                            're:assignable|Check that .* is assignable': 'C09/ObjectHeaderBase/read/resync-loop-frame'},
                    canary_ids=['harness.assertion.12', 'harness.assertion.13'],
                    expect_kinds=[r'loop invariant before entry', r'loop invariant is preserved', r'decreases clause'])
    j.weight = 10
    return j


def main():
    meta = core.ensure_extracted()
    info = classinfo.Info(meta)
    only = [a for a in sys.argv[1:] if not a.startswith('-') and a not in ('quick', 'thorough')]
    jobs = [ohb_read_job()]
    try:
        from checks import file_common
        jobs += file_common.c09_jobs(info, only)
    except ImportError:
        pass
    if not only:
        # the resynchronisation argument rests on the stream's read / relative-seekg law: discharge it here as well
        from checks import c15
        jobs += [core.borrow(j, 'C15', 'C09') for j in c15.jobs(1, 600)
                 if j.name.split('UncompressedFile_')[-1] in ('read', 'seekg', 'setters_accessors_predicates')]
    rep = core.Report('C09')
    rep.assumptions = ['streams up to 64 KiB per memory object in the loop-contract proof (CBMC object bound); content and filler length otherwise arbitrary',
                       'the buffer stream of the loop-contract proof (af_buf_stub.h) is the iostream law that UncompressedFile::read/seekg/tellg are proved to follow (C15 obligations, discharged in this check under C09/via-C15 labels; <= 2 containers held at once)']
    results = core.keep_property(core.run_jobs(jobs), 'C09')
    rep.add_results(results)
    core.triage(rep, results, info)
    return rep.finish('proof', 'goto-cc | goto-instrument --apply-loop-contracts | cbmc ' + ' '.join(FLAGS), core.TRUSTED_BASE)

if __name__ == '__main__':
    core.main_wrapper(main)
