"""C10 - corrupt or hostile input never causes a crash, undefined behaviour or a hang (reduced scope).

Part A (this file, codecs): for every class, <T>::read is enforced (DFCC) against the hostile-stream contract:
   R1 every memory-safety obligation holds for ANY stream content and ANY declared size (bounds, pointer validity,
      and AbstractFile::read's precondition 'destination writable for n bytes' at every call site),
   R2 the only outcomes are: normal return, the library's exception with eof set, or the std exception raised by a
      failed allocation of the declared size,
   R4 the get position never moves backwards past the start of the object, stays <= the declared end.
   Unbounded in sizes: loop-free codecs, the resynchronisation loop is replaced by ObjectHeaderBase::read's contract
   (which C09 proves with a loop contract).
Part B (File.cpp containment / end-of-stream / progress) lives in c10_file (see checks/file_common.py).
"""
import sys, os, json
sys.path.insert(0, os.path.dirname(os.path.dirname(os.path.abspath(__file__))))
from run import core, classinfo
from run.classinfo import cid


def job(info, cn):
    """harness route: preconditions assumed, AbstractFile's read side stubbed by the hostile contract
       (precondition asserted, destination havocked), postconditions asserted"""
    c = info.classes[cn]
    rd = c['vtable']['read']; fn = rd['fn']
    src = '#define VB_GHOST_AbstractFile int64_t g; int64_t p; int64_t fileSize; int rdstate; int64_t gcount; int64_t hdr_end; uint64_t asked; _Bool clamped;\n'
    src += '#define VB_MARK_HDR_END(os) ((void)0)\n#include "blf.h"\nint vb_exc; int vb_caught;\n#include "af_hostile_stub.h"\n#include "vec_count.h"\nint64_t g_hdr_skip;   /* filler the header resynchronisation skipped before the object */\n'
    deps = [d for d in info.deps(cn) if d not in ('File', 'UncompressedFile', 'CompressedFile', 'ObjectQueue')]
    if 'ObjectHeaderBase' in deps and cn != 'ObjectHeaderBase':
        # ObjectHeaderBase::read is used through its contract (proved in C09 with a loop contract on the resync loop)
        src += '#define ObjectHeaderBase_read ObjectHeaderBase_read__body\n#include "ObjectHeaderBase.c"\n#undef ObjectHeaderBase_read\n'
        src += '#include "ohb_read_stub.h"\n'
        deps.remove('ObjectHeaderBase')
    for d in deps:
        src += '#include "%s.c"\n' % d
    ctor_args = {'ObjectHeader': ', 0, 0', 'ObjectHeader2': ', 0, 0', 'VarObjectHeader': ', 0, 0'}.get(cn, '')
    src += 'void harness(void)\n{\n    struct %s y; struct AbstractFile is; int64_t g0;\n' % cn
    src += '    %s_ctor(&y%s);\n' % (cn, ctor_args)
    src += '    __CPROVER_assume(is.g >= 0 && is.g <= is.fileSize && is.fileSize <= ((int64_t)1 << 40));\n    g0 = is.g; is.p = g0; is.hdr_end = 0; is.asked = 0; is.clamped = 0; vb_exc = 0; g_hdr_skip = 0;\n    { size_t cap; vb_alloc_cap = cap; }   /* allocation may fail above an arbitrary cap */\n'
    src += '    %s(%s, &is);\n' % (fn, '&y' if not rd['self'] else '&y.' + rd['self'])
    blf_ok = '(is.rdstate & IOS_eofbit) != 0'
    if cn == 'FileStatistics': blf_ok = '((is.rdstate & IOS_eofbit) != 0 || y.signature != VBC_FileSignature)'
    src += '    __CPROVER_assert(vb_exc == 0 || vb_exc == VB_EXC_STD || (vb_exc == VB_EXC_BLF && %s), "C10/%s/read/R2-only-library-exception-at-eof-or-allocation-failure");\n' % (blf_ok, cn)
    src += '    __CPROVER_assert(is.g >= g0 && is.g <= is.fileSize, "C10/%s/read/R4-get-position-never-behind-object-start-nor-past-declared-end");\n' % cn
    if info.is_object(cn) and cn not in ('ObjectHeaderBase',):
        ohb = info.ohb(cn); O = (ohb + '.') if ohb else ''
        calc = info.call(cn, 'calculateObjectSize', '&y')
        pad = ' + y.%sobjectSize %% 4' % O if info.pads(cn) else ''
        small = ' && '.join(['y.%s.size <= 0x0fffffffu' % l['path'] for l in info.leaves(cn) if l['kind'] == 'vec'] or ['1'])
        # R3 is stated over the ghost total of bytes the decoder asked for or skipped (plain additions: constant for
        # fixed-size classes), for the runs in which no read was cut short and no skip ran into the declared end
        pad = ' + y.%sobjectSize %% 4' % O if info.pads(cn) else ''
        concl = '(is.hdr_end || is.clamped || is.asked == (uint64_t)y.%sobjectSize%s)' % (O, pad)
        src += '    __CPROVER_assert(!(vb_exc == 0 && is.rdstate == IOS_goodbit && y.%sobjectSize == %s && %s) || %s, "C03/%s/read/R3-decoding-consumes-exactly-objectSize-(plus-padding)-for-every-payload-length-when-the-decoded-sizes-are-consistent");\n' % (O, calc, small, concl, cn)
        src += '    __CPROVER_assert(!(vb_exc == 0 && is.rdstate == IOS_goodbit) || is.g >= g0 + 16, "C10/%s/read/R5-a-decode-that-ends-good-has-consumed-at-least-the-16-byte-base-header");\n' % cn
        nextra = 2
    else:
        nextra = 0
    src += '    __CPROVER_assert(!is.hdr_end || vb_exc != 0 || is.rdstate != IOS_goodbit, "C08/%s/read/R6-an-object-cut-short-by-the-end-of-the-stream-never-ends-with-the-stream-good");\n' % cn
    src += '    __CPROVER_assert(0, "canary");\n'
    canaries = ['harness.assertion.%d' % (4 + nextra)]
    vecs = [l for l in info.leaves(cn) if l['kind'] == 'vec' and not info.derived('not_serialised', l['owner'], l['name'])]
    if cn == 'CanFdExtFrameData': vecs = []     # its container is read by the enclosing CanFd* classes, which know the object size
    for i, v in enumerate(vecs):
        # reachability: a decode that completes with a non-empty container must be possible
        src += '    __CPROVER_assert(!(vb_exc == 0 && y.%s.size > 1), "canary-payload");\n' % v['path']
        canaries.append('harness.assertion.%d' % (5 + nextra + i))
    src += '}\n'
    labels = {'re:AbstractFile::read precondition': 'C10/%s/read/R1-every-stream-read-has-a-writable-destination-of-the-requested-size' % cn,
              're:stream invariant': 'C10/%s/read/R4-get-position-between-object-start-and-declared-end-after-every-step' % cn,
              're:seek offset in range': 'C10/%s/read/R1-seek-offset-in-range' % cn}
    unw = []
    return core.Job('C10_%s_read' % cn, src, route='harness', labels=labels, functions=['%s::read' % cn], timeout=300,
                    canary_ids=canaries, unwindset=unw,
                    extra_cbmc=['--no-unwinding-assertions'] if False else [])


def codec_jobs(info, only):
    return [job(info, c) for c in info.codec_classes() if c not in ('ObjectHeaderBase', 'ObjectHeader', 'ObjectHeader2', 'VarObjectHeader') and (not only or c in only)]


def main():
    meta = core.ensure_extracted()
    info = classinfo.Info(meta)
    only = [a for a in sys.argv[1:] if not a.startswith('-') and a not in ('quick', 'thorough')]
    jobs = codec_jobs(info, only)
    try:
        from checks import file_common
        jobs += file_common.c10_jobs(info, only)
    except ImportError:
        pass
    if not only:
        from checks import c09
        jobs.append(core.borrow(c09.ohb_read_job(), 'C09', 'C10'))     # the resynchronisation loop terminates and stays in bounds on arbitrary bytes
    rep = core.Report('C10')
    rep.assumptions = ['stream content and declared end are arbitrary (hostile contract); UB inside zlib, libstdc++ and std::fstream is not covered',
                       'allocation fails only by raising the std exception (vec model: any request above a symbolic cap may fail)',
                       'real threads are not modelled: containment and progress are proved per worker function (sequential)',
                       'the sanitizer outcomes the property names as observation points are not run by this check (native replay only)']
    results = core.keep_property(core.run_jobs(jobs), 'C10')
    rep.add_results(results)
    core.triage(rep, results, info)
    rep.validate_translation(info)
    return rep.finish('proof', 'goto-cc | goto-instrument --dfcc harness --enforce-contract <T>_read --replace-call-with-contract AbstractFile_v_read ... | cbmc ' + ' '.join(core.CBMC_FLAGS),
                      core.TRUSTED_BASE)

if __name__ == '__main__':
    core.main_wrapper(main)
