"""C13 - every object is released exactly once and sessions shut down cleanly.

 * ownership: ObjectQueue's destructor deletes every queued object exactly once (loop contract, C16 job relabelled);
   the two codec-side transfer functions hand over or delete the object they own exactly once on every path;
 * session state machine as an inductive invariant: open (already open / cannot open / success), close (not open /
   read session / write session), ~File == close; good()/eof() are the queue's flags; both workers started once and
   joined once.  Because each operation preserves the invariant the clauses hold for call histories of any length.
Histories that re-open a closed File are outside the statement ("one successful open").
"""
import sys, os
sys.path.insert(0, os.path.dirname(os.path.dirname(os.path.abspath(__file__))))
from run import core
from checks import file_common, c16


def extra(info):
    js = []
    for j in c16.jobs():
        if j.name.endswith('dtor'):
            js.append(core.Job(j.name.replace('C16_', 'C13_'), j.source.replace('"C16/ObjectQueue/dtor', '"C13/ObjectQueue/dtor'),
                               route=j.route, flags=j.flags, functions=j.functions, canary_ids=j.canary_ids, timeout=j.timeout,
                               loop_contracts=True, expect_kinds=j.expect_kinds,
                               labels={k: v.replace('C16/', 'C13/') for k, v in j.labels.items()}))
    fns = file_common.file_functions()
    src = file_common.PRE + 'int g_close_calls;\nvoid File_close(struct File *self) { g_close_calls++; }\n' + \
        'void ObjectQueue_dtor(struct ObjectQueue *q) { } void UncompressedFile_dtor(struct UncompressedFile *u) { } void CompressedFile_dtor(struct CompressedFile *c) { }\nvoid FileStatistics_dtor(struct FileStatistics *s) { }\n' + \
        file_common.need(fns, 'File_dtor') + '''
void harness(void)
{
    struct File f; reset_ghost(&f); g_close_calls = 0;
    File_dtor(&f);
    __CPROVER_assert(g_close_calls == 1, "C13/File/dtor/destruction-closes-the-session-(once)");
    __CPROVER_assert(0, "canary");
}
'''
    # the queue's own contract (C16) is what the transfer obligations rest on: an object handed to write() is queued exactly once, read() removes exactly one
    js += [core.borrow(j, 'C16', 'C13') for j in c16.jobs() if not j.name.endswith('dtor')]
    js.append(core.Job('C13_File_dtor', src, route='harness', flags=file_common.FLAGS, functions=['File::~File'], canary_ids=['harness.assertion.2'], timeout=120))
    return js


if __name__ == '__main__':
    core.main_wrapper(lambda: file_common.run_property('C13', extra_jobs=extra, assumptions=[
        'std::thread is modelled by ghost handles (started / joined); std::fstream::open may fail or succeed',
        'shared_ptr<LogContainer> reference counting is not modelled (containers are owned by the stream list)']))
