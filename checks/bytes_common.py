"""Harness generation shared by the BYTES-flavour checks (C01 round trip, C14 determinism, C02 images)."""
import os, sys, json
sys.path.insert(0, os.path.dirname(os.path.dirname(os.path.abspath(__file__))))
from run import core, classinfo
from run.classinfo import cid

STATEFUL = ('UncompressedFile', 'CompressedFile', 'ObjectQueue', 'File')
FLAGS = ['--bounds-check', '--pointer-check', '--signed-overflow-check', '--object-bits', '12']


def optional(info):
    if not hasattr(info, '_optional'):
        info._optional = json.load(open(os.path.join(core.VERIF, 'spec', 'optional_members.json')))
    return info._optional


def prelude(info, cn, nmax):
    src = '#define VB_NMAX %d\n#include "af_bytes.h"\n#include "blf.h"\nint vb_exc; int vb_caught;\n#include "af_bytes_impl.h"\n#include "vec_bytes.h"\n' % max(nmax, 16)   # capacity >= 16: AbstractFile::skipp(15) builds a 15-byte vector
    for d in info.deps(cn):
        if d in STATEFUL: continue
        src += '#include "%s.c"\n' % d
    return src


def seg_bytes(info, cn, nmax):
    m = max(16, nmax * 8)
    for l in info.leaves(cn):
        if l['kind'] == 'array': m = max(m, classinfo.SIZES[l['elem']] * l['count'])
    return m


def prelude_seg(info, cn, nmax):
    src = '#define VB_NMAX %d\n#define VB_SEG_BYTES %d\n#include "af_seg.h"\n#include "blf.h"\nint vb_exc; int vb_caught;\n#include "af_seg_impl.h"\n#include "vec_bytes.h"\n' % (nmax, seg_bytes(info, cn, nmax))
    for d in info.deps(cn):
        if d in STATEFUL: continue
        src += '#include "%s.c"\n' % d
    return src


def stream_cap(info, cn, nmax):
    cap = 64
    for l in info.leaves(cn):
        if l['kind'] == 'scalar': cap += classinfo.SIZES.get(l['ctype'], 8)
        elif l['kind'] == 'array': cap += classinfo.SIZES[l['elem']] * l['count']
        elif l['kind'] == 'vec': cap += classinfo.SIZES[l['elem']] * nmax
    return cap


def havoc_decls(info, cn, nmax, tag='in'):
    """global input variables: one per scalar, one array per std::array / container"""
    out = ''
    for l in info.leaves(cn):
        n = '%s_%s' % (tag, cid(l['path']))
        if l['kind'] == 'scalar' and l['ctype'] in classinfo.SIZES:
            out += '%s %s;\n' % (l['ctype'], n)
        elif l['kind'] == 'array':
            out += '%s %s[%d];\n' % (l['elem'], n, l['count'])
        elif l['kind'] == 'vec':
            out += 'size_t %s__size; %s %s[%d];\n' % (n, l['elem'], n, nmax)
    return out


def havoc_inputs(info, cn, nmax, tag='in'):
    """statements giving every input a nondeterministic value (the trace shows them)"""
    out = ''
    for l in info.leaves(cn):
        n = '%s_%s' % (tag, cid(l['path']))
        if l['kind'] == 'scalar' and l['ctype'] in classinfo.SIZES:
            out += '    { %s v; %s = v; }\n' % (l['ctype'], n)
        elif l['kind'] == 'array':
            out += '    { %s v[%d]; memcpy(%s, v, sizeof(v)); }\n' % (l['elem'], l['count'], n)
        elif l['kind'] == 'vec':
            out += '    { size_t v; __CPROVER_assume(v <= %d); %s__size = v; %s w[%d]; memcpy(%s, w, sizeof(w)); }\n' % (
                nmax, n, l['elem'], nmax, n)
    return out


def keep_constructed(info, cn, l):
    """members the API user does not assign: the signature"""
    return l['owner'] == 'ObjectHeaderBase' and l['name'] == 'signature'


def populate(info, cn, var, nmax, tag='in'):
    """assign every declared data member of object var from the inputs (the way the API is used)"""
    out = ''
    for l in info.leaves(cn):
        n = '%s_%s' % (tag, cid(l['path']))
        lv = '%s.%s' % (var, l['path'])
        if keep_constructed(info, cn, l): continue
        if l['kind'] == 'scalar' and l['ctype'] in classinfo.SIZES:
            out += '    %s = %s;\n' % (lv, n)
        elif l['kind'] == 'array':
            out += '    memcpy(%s.e, %s, sizeof(%s));\n' % (lv, n, n)
        elif l['kind'] == 'vec':
            sn = 'vec_' + classinfo.cid(l['elem'])
            out += '    %s_resize(&%s, %s__size);\n' % (sn, lv, n)
            out += '    for (size_t i = 0; i < %s__size; i++) %s.data[i] = %s[i];\n' % (n, lv, n)
    return out


def when_cond(info, cn, l, xvar='x'):
    opt = optional(info).get(cn, {}).get('when', {})
    # match by path without header-base prefixes
    key = l['path']
    c = opt.get(key)
    if c is None: return None
    if c == 'HASEXT':
        return info.call(cn, 'hasExtData', '&' + xvar)
    return c.replace('x.', xvar + '.')


def selector(info, cn, l, xvar='x'):
    sel = optional(info).get(cn, {}).get('selectors', {})
    c = sel.get(l['path'])
    return c.replace('x.', xvar + '.') if c else None


def is_library_derived(info, cn, l):
    """members the library itself derives on write: size/length/count fields and documented recomputed fields"""
    if l['owner'] == 'ObjectHeaderBase' and l['name'] in ('headerSize', 'objectSize', 'signature'): return True
    if info.derived('recomputed_on_write', l['owner'], l['name']): return True
    if l['kind'] == 'scalar' and info.length_field_of(l): return True
    if l['owner'] == 'LogContainer' and l['name'] == 'compressedFileSize': return True
    return False


def compare_members(info, cn, label_prefix, A, xvar='x', yvar='y', tag='in'):
    """RT1: every serialised member of y equals what the CALLER put into x (the harness inputs); members the
       library derives itself (sizes, lengths) are compared with x after write"""
    for l in info.leaves(cn):
        p = l['path']
        if info.derived('not_serialised', l['owner'], l['name']): continue
        sel = selector(info, cn, l, xvar)
        cond = when_cond(info, cn, l, xvar)
        g = '!(%s) || ' % cond if cond else ''
        lab = '%s/member:%s' % (label_prefix, p)
        n = '%s_%s' % (tag, cid(p))
        derived = is_library_derived(info, cn, l)
        if sel is not None:
            A('%s.%s == %s' % (yvar, p, sel), '%s/selector:%s' % (label_prefix, p)); continue
        if l['kind'] == 'scalar' and l['ctype'] in classinfo.SIZES:
            rhs = '%s.%s' % (xvar, p) if derived else n
            if l['ctype'] == 'double':
                A('%s*(uint64_t *)&%s.%s == *(uint64_t *)&%s' % (g, yvar, p, rhs), lab)
            else:
                A('%s%s.%s == %s' % (g, yvar, p, rhs), lab)
        elif l['kind'] == 'array':
            A('%sk >= %d || %s.%s.e[k] == %s[k]' % (g, l['count'], yvar, p, n), lab)
        elif l['kind'] == 'vec':
            A('%s%s.%s.size == %s__size' % (g, yvar, p, n), lab + '.size')
            A('%s%s.%s.size != %s__size || k >= %s__size || %s.%s.data[k] == %s[k]' % (
                g, yvar, p, n, n, yvar, p, n), lab + '.content')
