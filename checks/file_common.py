"""File.cpp obligations shared by C04, C05, C06, C08, C09, C10, C11, C12, C13.

Each function of File.cpp is verified ON ITS OWN (extracted text, harness route) against its contract, with every
callee replaced by the stub of the callee's contract (contracts/file_stubs.h).  The worker loops carry loop
contracts.  One job per function; every assertion carries the label of the property clause it decides, so each
property's check selects its labels from the shared jobs.
"""
import sys, os, re
sys.path.insert(0, os.path.dirname(os.path.dirname(os.path.abspath(__file__))))
from run import core, classinfo

FLAGS = ['--bounds-check', '--pointer-check', '--signed-overflow-check', '--object-bits', '12']

PRE = r'''
#define VB_MODELS_CUSTOM 1
#include "models_ghost.h"
#define VB_WAIT(cv, pred) ((void)0)
struct vb_thread; void vb_join(struct vb_thread *t);
#define VB_THREAD_JOIN(t) vb_join(t)
#define VB_GHOST_ObjectHeaderBase uint32_t gh_calc;     /* what calculateObjectSize() returns for this object */
#define VB_GHOST_CompressedFile int64_t cg; int64_t cp; int cstate; _Bool copen; int cmode;   /* abstract std::fstream */
/* C11, ownership of File's data members (spec/file_ownership.json): every statement of File.cpp that names a member carries
 * a hook (VB_TOUCH read / VB_TOUCH_W may-write); the hook asserts that the running thread may touch the member now */
#define VB_LOCKSET 1
enum { VB_ROLE_APP = 1, VB_ROLE_U = 2, VB_ROLE_C = 4 };
int vb_role;
#define VB_RUN_U(f) ((f)->m_uncompressedFileThread.started && !(f)->m_uncompressedFileThread.joined)
#define VB_RUN_C(f) ((f)->m_compressedFileThread.started && !(f)->m_compressedFileThread.joined)
#define VB_OWN_sync(f, w) 1                                   /* an object of a class with its own mutex (lockset obligation) */
#define VB_OWN_app(f, w) (vb_role == VB_ROLE_APP)             /* no worker ever touches it */
#define VB_OWN_frozen(f, w) (!(w) || (vb_role == VB_ROLE_APP && !VB_RUN_U(f) && !VB_RUN_C(f)))   /* workers only read it */
#define VB_OWN_frozen_u(f, w) ((w) ? (vb_role == VB_ROLE_APP && !VB_RUN_U(f)) : (vb_role != VB_ROLE_C))
#define VB_OWN_frozen_c(f, w) ((w) ? (vb_role == VB_ROLE_APP && !VB_RUN_C(f)) : (vb_role != VB_ROLE_U))
#define VB_OWN_worker_u(f, w) (VB_RUN_U(f) ? vb_role == VB_ROLE_U : vb_role == VB_ROLE_APP)
#define VB_OWN_worker_c(f, w) (VB_RUN_C(f) ? vb_role == VB_ROLE_C : vb_role == VB_ROLE_APP)
/*OWNERSHIP*/
#define VB_TOUCH_File(f, m, how) __CPROVER_assert(VB_OWNER_File_##m(f, sizeof(how) == sizeof("written")), "C11/File/ownership/member-" #m "-is-" how "-only-by-the-thread-that-owns-it-at-that-time")
#include "blf.h"
int vb_exc; int vb_caught; uint64_t VB_J; int vb_list_overflow;
struct ObjectHeaderBase *vb_nondet_obj(void) { struct ObjectHeaderBase *p; return p; }
#include "file_stubs.h"
struct ObjectHeaderBase *File_createObject(uint32_t type)
{
    /* contract of C17: nothing for codes without a class, otherwise a fresh object of the class the format assigns */
    if (vb_nondet_int()) { g_created = 0; return 0; }
    struct ObjectHeaderBase *o = (struct ObjectHeaderBase *)malloc(sizeof(struct ObjectHeaderBase)); __CPROVER_assume(o != 0);
    o->objectType = type; o->signature = VBC_ObjectSignature; g_created = o;
    return o;
}
_Bool File_is_open(struct File *self) { return CompressedFile_is_open(&self->m_compressedFile); }
/* join(t) returns only if t terminates: every wait t can be parked in must have been made permanently true BEFORE the join */
int g_join_u_ready, g_join_z_ready, g_join_order_ok;
void vb_join(struct vb_thread *t)
{
    struct File *f = vb_file;
    if (t == &f->m_uncompressedFileThread) {
        if (f->m_openMode & IOS_in)  g_join_u_ready = (g_abort_u >= 1 && g_abort_q >= 1);      /* parked in stream read or queue write */
        else                          g_join_u_ready = (g_eos_queue >= 1);                      /* parked in queue read until end of input is declared */
    } else {
        if (f->m_openMode & IOS_in)  g_join_z_ready = (g_abort_u >= 1);                        /* parked in stream append */
        else                          g_join_z_ready = (f->m_uncompressedFileThread.joined == 1);  /* ends only after the encoder declared end of stream, i.e. after it ended */
    }
    t->joined = 1;
}
static void reset_ghost(struct File *f)
{
    g_join_u_ready = g_join_z_ready = -1;
    vb_file = f; vb_exc = 0;
    g_drop_calls = g_push_calls = g_delete_calls = g_writeLC_calls = g_next_calls = g_encode_calls = 0;
    g_compress_calls = g_lcwrite_calls = g_lcdtor = g_eos_queue = g_eos_stream = g_stats_written = g_seekp_calls = g_closed = g_abort_q = g_abort_u = 0;
    g_pushed = g_deleted = g_created = g_dequeued = 0; g_sig_pos = -1; g_obj_end = -1; g_lcread_calls = 0; g_hdr_bad = 0;
}
#define U (f.m_uncompressedFile)
#define Q (f.m_readWriteQueue)
#define C (f.m_compressedFile)
#define STREAM_INV (U.m_tellg >= 0 && U.m_tellg <= U.m_fileSize && U.m_fileSize <= ((int64_t)1 << 60) && U.m_tellp >= 0 && U.m_tellp <= ((int64_t)1 << 60) && C.cp >= 0 && C.cp <= ((int64_t)1 << 60) && C.cg >= 0 && C.cg <= ((int64_t)1 << 60))
'''


def file_functions():
    """split the extracted File.c into its functions (text incl. contract hooks)"""
    txt = open(os.path.join(core.GEN, 'File.c')).read()
    parts = re.split(r'(?=/\* from File\.(?:cpp|h):\d+ \*/\n)', txt)
    fns = {}
    for p in parts[1:]:
        m = re.search(r'^(?:[A-Za-z_][\w \*]*?)\b(File_\w+)\(', p, re.M)
        if m: fns[m.group(1)] = p
    return fns


def A(label, cond):
    return '    __CPROVER_assert(%s, "%s");\n' % (cond, label)


def need(fns, *names):
    out = ''
    for n in names:
        if n not in fns: raise core.Inconclusive('File.cpp: function %s not found in the extracted text (renamed?)' % n)
        out += fns[n]
    return out


THREADS = {'m_uncompressedFileThread': 'U', 'm_compressedFileThread': 'C'}


def ownership_table(info):
    """member -> (rule, accessors): the weakest access rule under which the member is race free, DERIVED from the
       extracted code: the hooks of every File function (classes.json: functions[].touches) are attributed to the
       threads that can execute the function (call-graph closure from the thread entry functions / from the API
       functions); CBMC then proves the part that needs the thread state (started/joined) at each access."""
    fm = {fn: m for fn, m in info.meta['functions'].items() if m.get('owner') == 'File'}
    te = info.meta.get('thread_entries', {}).get('File', {})
    if set(te) != set(THREADS): raise core.Inconclusive('File: worker threads %s, expected %s (must-fire)' % (sorted(te), sorted(THREADS)))
    hooked = [h.split('.', 1)[1] for h in info.meta.get('touch_hooks', []) if h.startswith('File.')]
    if not hooked: raise core.Inconclusive('the extractor emitted no member-access hook for File (must-fire)')
    def closure(roots):
        seen = set(); todo = list(roots)
        while todo:
            f = todo.pop()
            if f in seen or f not in fm: continue
            seen.add(f); todo += [c for c in fm[f].get('calls', []) if c in fm]
        return seen
    entries = {e for es in te.values() for e in es}
    called = {c for f, m in fm.items() for c in m.get('calls', []) if c in fm and c != f}
    reach = {'APP': closure([f for f in fm if f not in entries and f not in called and fm[f].get('kind') != 'waitpred'])}
    for t, es in te.items(): reach[THREADS[t]] = closure(es)
    acc = {m: set() for m in hooked}
    for role, fns in reach.items():
        for f in fns:
            for (cls, m, mode) in fm[f].get('touches') or []:
                if cls == 'File': acc[m].add((role, mode))
    members = {m['name']: m for m in info.classes['File']['members']}
    table = {}
    for m in hooked:
        mt = members.get(m, {}).get('type') or {}
        cls = info.classes.get(mt.get('name') or '', None)
        workers = sorted({r for (r, mode) in acc[m] if r != 'APP'})
        wwrites = sorted({r for (r, mode) in acc[m] if r != 'APP' and mode == 'w'})
        if cls is not None and any((x['type'] or {}).get('name') == 'std::mutex' for x in cls['members']): rule = 'sync'
        elif not workers: rule = 'app'
        elif wwrites: rule = 'worker_' + wwrites[0].lower()       # a second worker touching it fails this rule: that is the race
        elif len(workers) == 1: rule = 'frozen_' + workers[0].lower()
        else: rule = 'frozen'
        table[m] = (rule, sorted(acc[m]))
    return table, reach


def ownership(info):
    table, reach = ownership_table(info)
    return ''.join('#define VB_OWNER_File_%s(f, w) VB_OWN_%s(f, w)   /* touched by %s */\n' % (m, rule, ', '.join('%s:%s' % a for a in acc))
                   for m, (rule, acc) in sorted(table.items()))


ROLE = {'APP': '    vb_role = VB_ROLE_APP;\n',
        'U': '    vb_role = VB_ROLE_U; __CPROVER_assume(VB_RUN_U(&f));   /* the decoding/encoding worker runs only between its start and its join */\n',
        'C': '    vb_role = VB_ROLE_C; __CPROVER_assume(VB_RUN_C(&f));   /* the compression worker runs only between its start and its join */\n',
        'APP_JOINED': '    vb_role = VB_ROLE_APP; __CPROVER_assume(!VB_RUN_U(&f) && !VB_RUN_C(&f));   /* call site in close(): after both joins (asserted there) */\n'}


def all_jobs(info):
    fns = file_functions()
    jobs = []
    pre = PRE.replace('/*OWNERSHIP*/', ownership(info))

    def mk(name, funcs, body, ncanary, functions, loop=False, extra_pre='', labels=None, expect=(), role='APP'):
        src = pre + extra_pre + need(fns, *funcs)
        src += 'void harness(void)\n{\n    struct File f; reset_ghost(&f);\n    __CPROVER_assume(STREAM_INV);\n' + ROLE[role] + body
        src += '    __CPROVER_assert(0, "canary");\n}\n'
        jobs.append(core.Job('FILE_' + name, src, route='harness', flags=FLAGS, functions=functions, loop_contracts=loop,
                             canary_ids=['harness.assertion.%d' % ncanary], timeout=600, labels=labels or {}, expect_kinds=list(expect)))

    # ------------------------------------------------------------------ uncompressedFile2ReadWriteQueue
    b = '''    int64_t g0 = U.m_tellg; uint32_t cnt0 = f.currentObjectCount;
    File_uncompressedFile2ReadWriteQueue(&f);
'''
    asr = [
        ('C08/File/uncompressedFile2ReadWriteQueue/pushes-at-most-one-object-and-only-when-it-was-decoded-completely', 'g_push_calls <= 1 && (g_push_calls == 0 || (vb_exc == 0 && U.m_rdstate == 0))'),
        ('C13/File/uncompressedFile2ReadWriteQueue/a-created-object-is-handed-over-or-deleted-exactly-once', 'g_created == 0 || vb_exc == VB_EXC_STD || (g_push_calls + g_delete_calls == 1)'),
        ('C13/File/uncompressedFile2ReadWriteQueue/nothing-but-the-created-object-is-pushed-or-deleted', '(g_push_calls == 0 || g_pushed == g_created) && (g_delete_calls == 0 || g_deleted == g_created)'),
        ('C05/File/uncompressedFile2ReadWriteQueue/object-counter-counts-exactly-the-delivered-objects-except-type-115', 'f.currentObjectCount == cnt0 + ((g_push_calls == 1 && g_pushed_type != ObjectType_Unknown115) ? 1u : 0u)'),
        ('C12/File/uncompressedFile2ReadWriteQueue/drops-consumed-data-once-per-delivered-object', 'g_drop_calls == g_push_calls'),
        ('C09/File/uncompressedFile2ReadWriteQueue/unknown-type-is-skipped-by-its-declared-size-from-the-object-start', '!(vb_exc == 0 && g_sig_pos >= 0 && g_created == 0 && g_push_calls == 0 && g_delete_calls == 0 && U.m_rdstate == 0) || U.m_tellg == ((g_sig_pos + (int64_t)vb_last_osize < U.m_fileSize) ? g_sig_pos + (int64_t)vb_last_osize : U.m_fileSize)'),
        ('C10/File/uncompressedFile2ReadWriteQueue/skipping-an-unknown-object-makes-progress-or-reaches-the-declared-end', '!(vb_exc == 0 && g_sig_pos >= 0 && g_created == 0 && U.m_rdstate == 0) || U.m_tellg > g0 || U.m_tellg == U.m_fileSize'),
        ('C10/File/uncompressedFile2ReadWriteQueue/a-header-declaring-less-than-its-own-16-bytes-ends-the-read-without-creating-an-object', '!(g_sig_pos >= 0 && vb_last_osize < 16) || (vb_exc == VB_EXC_BLF && g_push_calls == 0 && g_delete_calls == 0)'),
        ('C10/File/uncompressedFile2ReadWriteQueue/position-stays-inside-the-stream', 'U.m_tellg <= U.m_fileSize'),
        ('C10/File/uncompressedFile2ReadWriteQueue/a-delivered-object-moves-the-position-forward-by-at-least-one-base-header-(no-object-is-delivered-twice)', 'g_push_calls == 0 || U.m_tellg >= g_sig_pos + 16'),
        ('C09/File/uncompressedFile2ReadWriteQueue/after-a-delivered-object-the-position-is-its-decoded-end-or-its-declared-end-whichever-comes-first', 'g_push_calls == 0 || U.m_tellg == ((g_obj_end < g_sig_pos + (int64_t)vb_last_osize) ? g_obj_end : g_sig_pos + (int64_t)vb_last_osize)'),
    ]
    for l, c in asr: b += A(l, c)
    # remember the declared size the header stub produced: wrap ObjectHeaderBase_read's objectSize via a ghost
    extra = ''
    mk('uncompressedFile2ReadWriteQueue', ['File_uncompressedFile2ReadWriteQueue'], b, len(asr) + 1,
       ['File::uncompressedFile2ReadWriteQueue'], extra_pre=extra, role='U',
       labels={'re:deallocated dynamic object': 'C11/File/uncompressedFile2ReadWriteQueue/the-object-is-not-touched-after-it-was-handed-to-the-queue',
               're:^File_uncompressedFile2ReadWriteQueue\\.pointer_dereference': 'C11/File/uncompressedFile2ReadWriteQueue/the-object-is-not-touched-after-it-was-handed-to-the-queue'})
    # ------------------------------------------------------------------ readWriteQueue2UncompressedFile
    b = '''    uint32_t cnt0 = f.currentObjectCount; int64_t p0 = U.m_tellp;
    File_readWriteQueue2UncompressedFile(&f);
'''
    asr = [
        ('C13/File/readWriteQueue2UncompressedFile/a-dequeued-object-is-encoded-once-and-deleted-exactly-once', 'g_dequeued == 0 ? (g_encode_calls == 0 && g_delete_calls == 0) : (g_encode_calls == 1 && g_delete_calls == 1 && g_deleted == g_dequeued)'),
        ('C05/File/readWriteQueue2UncompressedFile/object-counter-counts-exactly-the-written-objects-except-type-115', 'f.currentObjectCount == cnt0 + ((g_dequeued != 0 && g_encoded_type != ObjectType_Unknown115) ? 1u : 0u)'),
        ('C01/File/readWriteQueue2UncompressedFile/nothing-is-appended-to-the-stream-when-the-queue-reports-end', 'g_dequeued != 0 || U.m_tellp == p0'),
        ('C10/File/readWriteQueue2UncompressedFile/no-exception', 'vb_exc == 0'),
    ]
    for l, c in asr: b += A(l, c)
    mk('readWriteQueue2UncompressedFile', ['File_readWriteQueue2UncompressedFile'], b, len(asr) + 1, ['File::readWriteQueue2UncompressedFile'], role='U')
    # ------------------------------------------------------------------ compressedFile2UncompressedFile
    b = '''    uint64_t cur0 = f.currentUncompressedFileSize; int64_t p0 = U.m_tellp; int64_t cg0 = C.cg;
    __CPROVER_assume(cur0 <= ((uint64_t)1 << 60));
    File_compressedFile2UncompressedFile(&f);
'''
    asr = [
        ('C08/File/compressedFile2UncompressedFile/appends-one-complete-container-or-raises-without-appending', '(vb_exc == 0 && g_writeLC_calls == 1) || (vb_exc != 0 && g_writeLC_calls == 0 && U.m_tellp == p0)'),
        ('C08/File/compressedFile2UncompressedFile/a-cut-short-container-header-ends-the-transfer-with-the-library-exception-before-anything-is-decoded', '!g_hdr_bad || (vb_exc != 0 && g_lcread_calls == 0 && g_writeLC_calls == 0)'),
        ('C08/File/compressedFile2UncompressedFile/a-container-is-appended-only-if-it-was-read-completely', 'g_writeLC_calls == 0 || C.cstate == 0'),
        ('C05/File/compressedFile2UncompressedFile/size-counter-grows-by-container-header-plus-payload-of-the-appended-container', 'g_writeLC_calls == 0 || g_lc_usize > 0xffffffdfu || f.currentUncompressedFileSize == cur0 + 32 + (uint64_t)g_lc_usize'),
        ('C08/File/compressedFile2UncompressedFile/the-stream-grows-by-exactly-the-declared-payload', 'g_writeLC_calls == 0 || U.m_tellp == p0 + (int64_t)g_lc_usize'),
        ('C10/File/compressedFile2UncompressedFile/every-transfer-consumes-at-least-one-base-header-of-the-file-or-raises-(a-finite-file-ends-the-worker)', 'vb_exc != 0 || C.cg >= cg0 + 16'),
    ]
    for l, c in asr: b += A(l, c)
    mk('compressedFile2UncompressedFile', ['File_compressedFile2UncompressedFile'], b, len(asr) + 1, ['File::compressedFile2UncompressedFile'], role='C',
       labels={'re:UncompressedFile::write\\(container\\) precondition': 'C10/File/compressedFile2UncompressedFile/an-appended-container-holds-exactly-the-bytes-it-declares-(no-read-past-its-buffer)'})
    # ------------------------------------------------------------------ uncompressedFile2CompressedFile
    b = '''    uint64_t cur0 = f.currentUncompressedFileSize; int64_t g0 = U.m_tellg; uint32_t dsz = U.m_defaultLogContainerSize; int lvl = f.compressionLevel;
    __CPROVER_assume(cur0 <= ((uint64_t)1 << 60));
    File_uncompressedFile2CompressedFile(&f);
'''
    asr = [
        ('C04/File/uncompressedFile2CompressedFile/asks-the-stream-for-exactly-one-container-size', 'vb_exc == VB_EXC_STD || g_read_req == (int64_t)dsz'),
        ('C04/File/uncompressedFile2CompressedFile/method-0-iff-level-0-else-zlib-with-the-configured-level', 'g_compress_calls == 0 || (lvl == 0 ? (g_compress_method == 0 && g_compress_level == 0) : (g_compress_method == 2 && g_compress_level == lvl))'),
        ('C04/File/uncompressedFile2CompressedFile/container-payload-is-what-the-stream-delivered-and-never-larger-than-the-container-size', 'g_lcwrite_calls == 0 || ((int64_t)g_lc_usize == U.m_tellg - g0 && g_lc_usize <= dsz && g_lc_vecsize == (size_t)g_lc_usize)'),
        ('C04/File/uncompressedFile2CompressedFile/writes-exactly-one-container-unless-an-exception-is-raised', '(vb_exc == 0 && g_lcwrite_calls == 1 && g_compress_calls == 1) || (vb_exc != 0 && g_lcwrite_calls == 0)'),
        ('C05/File/uncompressedFile2CompressedFile/size-counter-grows-by-container-header-plus-payload', 'vb_exc != 0 || g_lc_usize > 0xffffffdfu || f.currentUncompressedFileSize == cur0 + 32 + (uint64_t)g_lc_usize'),
        ('C12/File/uncompressedFile2CompressedFile/drops-consumed-data-once-per-container', 'vb_exc != 0 || g_drop_calls == 1'),
    ]
    for l, c in asr: b += A(l, c)
    mk('uncompressedFile2CompressedFile', ['File_uncompressedFile2CompressedFile'], b, len(asr) + 1, ['File::uncompressedFile2CompressedFile'], role='C')
    # ------------------------------------------------------------------ worker loops (loop contracts)
    def worker(name, transfer, running, eos_expr, eos_label, stream_good, good_expr, good_pre):
        stub = '''unsigned g_transfers;
void %s(struct File *self)
{
    /* contract of the transfer function: may raise either exception, may leave the stream not good */
    g_transfers++;
    int k = vb_nondet_int();
    if (k == 1) vb_exc = VB_EXC_BLF; else if (k == 2) vb_exc = VB_EXC_STD;
    %s
}
#define LOOP_%s_1 \\
    __CPROVER_assigns(vb_exc, vb_caught, g_transfers, file->%s, __CPROVER_object_whole(file)) \\
    __CPROVER_loop_invariant(vb_exc == 0 && g_eos_queue == 0 && g_eos_stream == 0 && %s(file)) \\
    __CPROVER_loop_invariant(!file->%s || (%s))     /* the worker keeps running only while its input stream is good: it stops in the iteration in which the stream ends */
''' % (transfer, stream_good, name, running, 'VB_RUN_U' if 'uncompressedFileThread' in running else 'VB_RUN_C', running, good_expr)
        b = '    __CPROVER_assume(%s);\n    %s(&f);\n' % (good_pre, name)
        asr = [
            ('C10/File/%s/no-exception-escapes-the-worker' % name.replace('File_', ''), 'vb_exc == 0'),
            ('C10/File/%s/worker-stops-when-it-returns' % name.replace('File_', ''), '1'),
            (eos_label, eos_expr),
        ]
        for l, c in asr: b += A(l, c)
        mk(name.replace('File_', ''), [name], b, len(asr) + 1, ['File::' + name.replace('File_', '')], loop=True, extra_pre=stub, role='U' if 'uncompressedFileThread' in running else 'C',
           labels={'re:loop invariant before entry': 'C10/File/%s/loop-invariant-on-entry' % name.replace('File_', ''),
                   're:loop invariant is preserved': 'C10/File/%s/loop-invariant-preserved-(no-exception-pending-and-the-worker-stops-when-its-input-ends)' % name.replace('File_', '')},
           expect=[r'loop invariant is preserved'])
    worker('File_uncompressedFileReadThread', 'File_uncompressedFile2ReadWriteQueue', 'm_uncompressedFileThreadRunning',
           'g_eos_queue == 1 && g_eos_queue_arg == Q.m_tellp',
           'C06/File/uncompressedFileReadThread/end-of-stream-is-declared-to-the-application-on-every-exit-(also-after-an-unexpected-exception)',
           'if (vb_nondet_int()) self->m_uncompressedFile.m_rdstate = IOS_eofbit | IOS_failbit;',
           'file->m_uncompressedFile.m_rdstate == 0', 'U.m_rdstate == 0')
    worker('File_uncompressedFileWriteThread', 'File_readWriteQueue2UncompressedFile', 'm_uncompressedFileThreadRunning',
           'g_eos_stream == 1 && g_eos_stream_arg == UncompressedFile_tellp(&U)',
           'C06/File/uncompressedFileWriteThread/end-of-stream-is-declared-to-the-compression-stage-on-every-exit',
           'if (vb_nondet_int()) self->m_readWriteQueue.m_rdstate = IOS_eofbit | IOS_failbit;',
           'file->m_readWriteQueue.m_rdstate == 0', 'Q.m_rdstate == 0')
    worker('File_compressedFileReadThread', 'File_compressedFile2UncompressedFile', 'm_compressedFileThreadRunning',
           'g_eos_stream == 1 && g_eos_stream_arg == UncompressedFile_tellp(&U)',
           'C06/File/compressedFileReadThread/end-of-stream-is-declared-to-the-decoding-stage-on-every-exit-(also-after-an-unexpected-exception)',
           'if (vb_nondet_int()) self->m_compressedFile.cstate = IOS_eofbit | IOS_failbit;',
           'file->m_compressedFile.cstate == 0', 'C.cstate == 0')
    worker('File_compressedFileWriteThread', 'File_uncompressedFile2CompressedFile', 'm_compressedFileThreadRunning',
           '1', 'C06/File/compressedFileWriteThread/last-stage-needs-no-end-of-stream',
           'if (vb_nondet_int()) self->m_uncompressedFile.m_rdstate = IOS_eofbit | IOS_failbit;',
           'file->m_uncompressedFile.m_rdstate == 0', 'U.m_rdstate == 0')
    # ------------------------------------------------------------------ close (write branch): statistics
    stubs = '''#define CALLSITE __CPROVER_assert(!VB_RUN_U(self) && !VB_RUN_C(self), "C11/File/close/a-transfer-function-runs-on-the-application-thread-only-after-both-workers-were-joined")
void File_readWriteQueue2UncompressedFile(struct File *self) { CALLSITE; g_rp_q2u++; }
void File_uncompressedFile2CompressedFile(struct File *self) { CALLSITE; g_rp_u2c++; self->m_compressedFile.cp += 32; self->currentUncompressedFileSize += 32; }
'''
    # the same two functions executed by the application thread (from close(), after the joins): ownership hooks only
    for fn in ('File_readWriteQueue2UncompressedFile', 'File_uncompressedFile2CompressedFile'):
        mk(fn.replace('File_', '') + '_called_from_close', [fn], '    %s(&f);\n' % fn, 1, ['File::%s (called by close)' % fn.replace('File_', '')], role='APP_JOINED')
    b = '''    __CPROVER_assume(C.copen && (f.m_openMode & IOS_out) && !(f.m_openMode & IOS_in));
    __CPROVER_assume(f.m_uncompressedFileThread.started == 1 && f.m_uncompressedFileThread.joined == 0 && f.m_compressedFileThread.started == 1 && f.m_compressedFileThread.joined == 0);
    __CPROVER_assume(f.currentUncompressedFileSize <= ((uint64_t)1 << 60));
    struct FileStatistics st0 = f.fileStatistics; int64_t cp0 = C.cp; uint32_t qtellp = Q.m_tellp;
    File_close(&f);
'''
    asr = [
        ('C06/File/close/write-session-declares-end-of-input-before-joining-the-workers', 'g_eos_queue == 1 && g_eos_queue_arg == qtellp && g_join_u_ready == 1'),
        ('C06/File/close/write-session-joins-the-compressor-after-the-encoder-(which-declares-its-end-of-stream-on-exit)', 'g_join_z_ready == 1'),
        ('C13/File/close/write-session-each-worker-is-joined-only-after-what-it-may-wait-for-was-released-(no-thread-left-behind)', 'g_join_u_ready == 1 && g_join_z_ready == 1'),
        ('C13/File/close/write-session-joins-both-workers-exactly-once-and-closes-the-file', 'f.m_uncompressedFileThread.joined == 1 && f.m_compressedFileThread.joined == 1 && g_closed == 1 && !C.copen'),
        ('C05/File/close/restore-point-offset-is-the-file-position-before-the-trailer-when-enabled', '!f.writeRestorePoints || (f.fileStatistics.restorePointsOffset == (uint64_t)cp0 && g_next_calls == 1 && g_rp_q2u == 1 && g_rp_u2c == 1)'),
        ('C04/File/close/the-trailer-adds-no-object-of-its-own-(the-payload-is-exactly-what-the-application-wrote)', 'g_push_calls == 0 && g_encode_calls == 0'),
        ('C05/File/close/no-trailer-when-restore-points-are-disabled', 'f.writeRestorePoints || (g_next_calls == 0 && g_rp_q2u == 0 && g_rp_u2c == 0 && f.fileStatistics.restorePointsOffset == st0.restorePointsOffset)'),
        ('C05/File/close/header-is-rewritten-at-offset-0-with-file-size-uncompressed-size-and-object-count', 'g_seekp_calls == 1 && g_seekp_arg == 0 && g_stats_written == 1 && g_stats_at_write.fileSize == (uint64_t)(cp0 + (f.writeRestorePoints ? 32 : 0)) && g_stats_at_write.uncompressedFileSize == f.currentUncompressedFileSize && g_stats_at_write.objectCount == f.currentObjectCount'),
        ('C05/File/close/caller-supplied-header-fields-are-stored-verbatim', 'g_stats_at_write.applicationId == st0.applicationId && g_stats_at_write.applicationMajor == st0.applicationMajor && g_stats_at_write.applicationMinor == st0.applicationMinor && g_stats_at_write.applicationBuild == st0.applicationBuild && g_stats_at_write.compressionLevel == st0.compressionLevel && g_stats_at_write.apiNumber == st0.apiNumber && g_stats_at_write.signature == st0.signature && g_stats_at_write.statisticsSize == st0.statisticsSize && g_stats_at_write.measurementStartTime.year == st0.measurementStartTime.year && g_stats_at_write.lastObjectTime.milliseconds == st0.lastObjectTime.milliseconds'),
    ]
    for l, c in asr: b += A(l, c)
    mk('close_write', ['File_close'], b, len(asr) + 1, ['File::close (write session)'], extra_pre='int g_rp_q2u, g_rp_u2c;\n' + stubs)
    # ------------------------------------------------------------------ close (read branch) / not open
    b = '''    __CPROVER_assume(C.copen && (f.m_openMode & IOS_in) && !(f.m_openMode & IOS_out));
    __CPROVER_assume(f.m_uncompressedFileThread.started == 1 && f.m_uncompressedFileThread.joined == 0 && f.m_compressedFileThread.started == 1 && f.m_compressedFileThread.joined == 0);
    File_close(&f);
'''
    asr = [
        ('C06/File/close/read-session-releases-every-wait-before-joining-(abort-on-stream-and-queue-flags-cleared)', 'g_abort_u == 1 && g_abort_q == 1 && !f.m_uncompressedFileThreadRunning && !f.m_compressedFileThreadRunning'),
        ('C06/File/close/read-session-each-join-happens-after-the-waits-of-that-worker-were-released', 'g_join_u_ready == 1 && g_join_z_ready == 1'),
        ('C13/File/close/read-session-each-worker-is-joined-only-after-what-it-may-wait-for-was-released-(no-thread-left-behind)', 'g_join_u_ready == 1 && g_join_z_ready == 1'),
        ('C13/File/close/read-session-joins-both-workers-and-closes-the-file', 'f.m_uncompressedFileThread.joined == 1 && f.m_compressedFileThread.joined == 1 && g_closed == 1 && !C.copen'),
        ('C13/File/close/read-session-writes-nothing', 'g_stats_written == 0 && g_seekp_calls == 0'),
    ]
    for l, c in asr: b += A(l, c)
    mk('close_read', ['File_close'], b, len(asr) + 1, ['File::close (read session)'], extra_pre='int g_rp_q2u, g_rp_u2c;\n' + stubs)
    b = '''    __CPROVER_assume(!C.copen);
    struct File f0 = f;
    File_close(&f);
'''
    asr = [('C13/File/close/no-op-when-not-open-(idempotent-double-close)', 'g_closed == 0 && g_stats_written == 0 && g_eos_queue == 0 && g_abort_u == 0 && g_abort_q == 0 && f.m_uncompressedFileThread.joined == f0.m_uncompressedFileThread.joined && f.currentObjectCount == f0.currentObjectCount')]
    for l, c in asr: b += A(l, c)
    mk('close_closed', ['File_close'], b, len(asr) + 1, ['File::close (not open)'], extra_pre='int g_rp_q2u, g_rp_u2c;\n' + stubs)
    # ------------------------------------------------------------------ open
    ostubs = '''void File_uncompressedFileReadThread(struct File *f) {} void File_compressedFileReadThread(struct File *f) {}
void File_uncompressedFileWriteThread(struct File *f) {} void File_compressedFileWriteThread(struct File *f) {}
'''
    b = '''    char name[4]; int mode; struct File f0 = f; _Bool was_open = C.copen;
    __CPROVER_assume(f.m_uncompressedFileThread.started == 0 && f.m_compressedFileThread.started == 0 && f.currentUncompressedFileSize <= ((uint64_t)1 << 60));
    __CPROVER_assume(f.fileStatistics.statisticsSize == 144);
    File_open__char_std__ios_base__openmode(&f, name, mode);
'''
    asr = [
        ('C13/File/open/no-op-when-already-open-(the-session-keeps-its-mode)', '!was_open || (f.m_uncompressedFileThread.started == 0 && g_stats_written == 0 && f.currentUncompressedFileSize == f0.currentUncompressedFileSize && f.m_openMode == f0.m_openMode && C.copen)'),
        ('C13/File/open/stays-closed-and-starts-nothing-when-the-file-cannot-be-opened', 'was_open || C.copen || (f.m_uncompressedFileThread.started == 0 && f.m_compressedFileThread.started == 0 && g_stats_written == 0)'),
        ('C13/File/open/a-successful-open-starts-both-workers-exactly-when-a-mode-is-given', 'was_open || !C.copen || vb_exc != 0 || ((mode & (IOS_in | IOS_out)) ? (f.m_uncompressedFileThread.started == 1 && f.m_compressedFileThread.started == 1 && f.m_uncompressedFileThreadRunning && f.m_compressedFileThreadRunning) : (f.m_uncompressedFileThread.started == 0))'),
        ('C05/File/open/size-counter-starts-with-the-144-byte-header-of-a-written-file', 'was_open || !C.copen || vb_exc != 0 || (mode & IOS_in) || !(mode & IOS_out) || (f.currentUncompressedFileSize == f0.currentUncompressedFileSize + 144 && g_stats_written == 1)'),
    ]
    for l, c in asr: b += A(l, c)
    mk('open', ['File_open__char_std__ios_base__openmode'], b, len(asr) + 1, ['File::open'], extra_pre=ostubs)
    # ------------------------------------------------------------------ setDefaultLogContainerSize / read / write / good / eof
    b = '''    uint32_t c;
    File_setDefaultLogContainerSize(&f, c);
'''
    asr = [('C06/File/setDefaultLogContainerSize/back-pressure-threshold-stays-at-least-one-container-(a-blocked-compressor-and-a-blocked-encoder-exclude-each-other)', 'U.m_defaultLogContainerSize == c && U.m_bufferSize >= (int64_t)c'),
           ('C04/File/setDefaultLogContainerSize/sets-the-container-size-used-for-the-cut', 'U.m_defaultLogContainerSize == c && File_defaultLogContainerSize(&f) == c')]
    for l, c in asr: b += A(l, c)
    mk('setDefaultLogContainerSize', ['File_setDefaultLogContainerSize', 'File_defaultLogContainerSize'], b, len(asr) + 1, ['File::setDefaultLogContainerSize', 'File::defaultLogContainerSize'])
    b = '''    struct ObjectHeaderBase *o = (struct ObjectHeaderBase *)malloc(sizeof(struct ObjectHeaderBase)); __CPROVER_assume(o != 0);
    struct File f0 = f;
    File_write(&f, o);
'''
    asr = [('C11/File/write/hands-the-object-to-the-queue-once-and-keeps-no-alias', 'g_push_calls == 1 && g_pushed == o && f.currentObjectCount == f0.currentObjectCount && f.currentUncompressedFileSize == f0.currentUncompressedFileSize')]
    for l, c in asr: b += A(l, c)
    b += '''    struct ObjectHeaderBase *r = File_read(&f);
'''
    asr2 = [('C11/File/read/returns-what-the-queue-returned-unmodified-and-keeps-no-alias', 'r == g_dequeued && f.currentObjectCount == f0.currentObjectCount'),
            ('C13/File/good-and-eof-report-the-queue-state', 'File_good(&f) == (Q.m_rdstate == IOS_goodbit) && File_eof(&f) == ((Q.m_rdstate & IOS_eofbit) != 0)')]
    for l, c in asr2: b += A(l, c)
    mk('read_write', ['File_write', 'File_read', 'File_good', 'File_eof'], b, len(asr) + len(asr2) + 1, ['File::write', 'File::read', 'File::good', 'File::eof'])
    return jobs


def select(jobs, prop):
    """jobs carrying at least one label of the property; other labels are still checked but reported under their own property"""
    out = []
    for j in jobs:
        if ('"%s/' % prop) in j.source or any(v.startswith(prop + '/') for v in j.labels.values()):
            out.append(j)
    return out


def run_property(prop, extra_jobs=(), assumptions=(), post_hook=None, checker='goto-cc | [goto-instrument --apply-loop-contracts] | cbmc ' + ' '.join(FLAGS) + ' (each File.cpp function against its contract, callees replaced by the stubs of their contracts)'):
    meta = core.ensure_extracted()
    info = classinfo.Info(meta)
    jobs = select(all_jobs(info), prop) + list(extra_jobs(info) if callable(extra_jobs) else extra_jobs)
    for j in jobs:
        j.name = j.name.replace('FILE_', prop + '_File_') if j.name.startswith('FILE_') else j.name
    only = [a for a in sys.argv[1:] if not a.startswith('-') and a not in ('quick', 'thorough')]
    if only: jobs = [j for j in jobs if any(o in j.name for o in only)]
    rep = core.Report(prop)
    rep.assumptions = list(assumptions) + [
        'callees enter through the stubs of their contracts (contracts/file_stubs.h): UncompressedFile (C15), ObjectQueue (C16), the uniform codec contract (C03/C10/C01), createObject (C17), ObjectHeaderBase::read (C09); std::fstream, zlib and std::thread are assumed',
        'the worker functions are verified as sequential code; real interleavings are not explored']
    results = core.keep_property(core.run_jobs(jobs), prop)
    rep.add_results(results)
    core.triage(rep, results, info)
    if post_hook: post_hook(rep)
    return rep.finish('proof', checker, core.TRUSTED_BASE)


def c09_jobs(info, only):
    js = select(all_jobs(info), 'C09')
    for j in js: j.name = j.name.replace('FILE_', 'C09_File_')
    return js


def c10_jobs(info, only):
    js = select(all_jobs(info), 'C10')
    for j in js: j.name = j.name.replace('FILE_', 'C10_File_')
    return [j for j in js if not only or any(o in j.name for o in only)]
