"""C02 - objects from Vector-produced logs survive decode-then-encode byte for byte.

The property's own domain is decided: for every object image in the 170 reference logs (found by the
independent walker tools/blfwalk.py) and the lobj samples, and for every 8-byte window at a concrete
offset >= 16 inside the object overwritten with a fully SYMBOLIC value (a superset of every single-byte
and aligned 2/4/8-byte overwrite, boundary values included), the extracted codec must satisfy
    read(b') decodes completely with the shape of read(b)   ==>   write(read(b')) == b'   (length and bytes).
All loop bounds are the concrete image lengths.  'Shape' = container sizes, layout-variant conditions,
size fields the encoder recomputes (spec/derived_members.json: structLength), objectSize/headerSize.
"""
import sys, os, json, glob
sys.path.insert(0, os.path.dirname(os.path.dirname(os.path.abspath(__file__))))
sys.path.insert(0, os.path.join(os.path.dirname(os.path.dirname(os.path.abspath(__file__))), 'tools'))
from run import core, classinfo
from checks import bytes_common as bc
import blfwalk

CHUNK = 6


def collect_images(info):
    """-> {class: [dict(image, pad, src)]}"""
    by = {}
    code2cls = {int(c): e['cls'] for c, e in info.spec_types['codes'].items()}
    n = 0
    for f in blfwalk.reference_files(core.REPO):
        try:
            hdr, cs, raw = blfwalk.read_file(f)
        except Exception as e:
            raise core.Inconclusive('reference log %s is not readable by the independent walker: %s' % (f, e))
        stream = b''.join(c['data'] for c in cs)
        for o in blfwalk.objects(stream):
            cls = code2cls.get(o['objectType'])
            n += 1
            if cls is None: continue
            by.setdefault(cls, []).append(dict(image=o['image'], pad=o['pad_bytes'], src='%s/%s@%d' % (os.path.basename(os.path.dirname(f)), os.path.basename(f), o['pos'])))
    for f in sorted(glob.glob(os.path.join(core.REPO, 'src/Vector/BLF/tests/unittests/lobj/*/*.lobj'))):
        b = open(f, 'rb').read()
        if b[:4] != b'LOBJ' or len(b) < 16: continue
        import struct
        hs, hv, osz, oty = struct.unpack_from('<HHII', b, 4)
        cls = code2cls.get(oty)
        if cls is None or osz > len(b): continue
        by.setdefault(cls, []).append(dict(image=b[:osz], pad=b[osz:osz + (osz % 4)] if info.pads(cls) else b'', src='lobj/' + os.path.basename(f)))
    return by, n


def shape_expr(info, cn, a, b):
    conds = []
    ohb = info.ohb(cn); O = (ohb + '.') if ohb else ''
    conds.append('%s.%sobjectSize == %s.%sobjectSize' % (a, O, b, O))
    conds.append('%s.%sheaderSize == %s.%sheaderSize' % (a, O, b, O))
    for l in info.leaves(cn):
        if l['kind'] == 'vec':
            conds.append('%s.%s.size == %s.%s.size' % (a, l['path'], b, l['path']))
        if l['kind'] == 'scalar' and info.derived('recomputed_on_write', l['owner'], l['name']):
            conds.append('%s.%s == %s.%s' % (a, l['path'], b, l['path']))
        if l['kind'] == 'scalar' and info.derived('shape_selectors', l['owner'], l['name']):
            conds.append('%s.%s == %s.%s' % (a, l['path'], b, l['path']))
        if l['kind'] == 'scalar' and info.length_field_of(l):
            conds.append('%s.%s == %s.%s' % (a, l['path'], b, l['path']))
    opt = bc.optional(info).get(cn, {}).get('when', {})
    seen = set()
    for key, c in opt.items():
        if c in seen: continue
        seen.add(c)
        if c == 'HASEXT':
            conds.append('%s == %s' % (info.call(cn, 'hasExtData', '&' + a), info.call(cn, 'hasExtData', '&' + b)))
        else:
            conds.append('(%s) == (%s)' % (c.replace('x.', a + '.'), c.replace('x.', b + '.')))
    return ' && '.join(conds)


def image_jobs(info, cn, images, tier):
    rd = info.classes[cn]['vtable']['read']; wr = info.classes[cn]['vtable']['write']
    maxlen = max(len(i['image']) + len(i['pad']) for i in images)
    pre = '#define VB_REF_GUIDED 1\n#define VB_OVERLAY 1\n' + bc.prelude(info, cn, 16)
    pre = pre.replace('#define VB_NMAX 16', '#define VB_NMAX %d' % max(16, maxlen))
    for k, im in enumerate(images):
        b = im['image'] + im['pad']
        pre += 'static const uint8_t IMG%d[%d] = {%s};\n' % (k, len(b), ','.join(str(x) for x in b))
    selfy = lambda v, m: ('&' + v) if not m['self'] else ('&%s.%s' % (v, m['self']))
    pre += '''static void scenario(const uint8_t *img, int64_t len, int64_t osz, int64_t off, int first)
{
    uint8_t ob[%d]; size_t j; uint64_t v;
    vb_exc = 0;
    struct %s y0, y; %s_ctor(&y0); %s_ctor(&y);
    struct AbstractFile f0, f, fo;
    f0.buf = (uint8_t *)img; f0.cap = len; f0.g = 0; f0.p = len; f0.fileSize = len; f0.rdstate = 0; f0.gcount = 0; f0.hdr_end = -1; f0.ovl_off = -1; f0.ovl_end = -1; f0.nskip = 0;
    f = f0; f.ovl_val = v;
    if (off >= 16) { f.ovl_off = off; f.ovl_end = off + 8 < osz ? off + 8 : osz; }
    fo.ovl_off = -1; fo.ovl_end = -1; fo.nskip = 0; fo.buf = ob; fo.cap = %d; fo.g = 0; fo.p = 0; fo.fileSize = INT64_MAX; fo.rdstate = 0; fo.gcount = 0; fo.hdr_end = -1;
    vb_ref_n = 0; vb_ref_k = 0; vb_ref_diverged = 0; vb_ref_mode = 1;
    %s(%s, &f0);
    vb_ref_mode = 0;
    if (first) __CPROVER_assert(vb_exc == 0 && f0.rdstate == 0 && f0.g == len, "C02/%s/image/reference-image-decodes-completely");
    if (vb_exc != 0 || f0.rdstate != 0) return;
    vb_ref_mode = 2;
    %s(%s, &f);
    vb_ref_mode = 0;
    if (vb_exc != 0 || f.rdstate != 0 || f.g != f0.g) return;          /* not decoded completely: outside the property's domain */
    if (!(%s)) return;                                                  /* shape changed: outside the property's domain */
    %s(%s, &fo);
    __CPROVER_assert(vb_exc == 0, "C02/%s/image/encode-raises-no-exception");
    __CPROVER_assert(fo.p == f.g, "C02/%s/image/re-encoding-has-the-length-that-was-decoded");
    __CPROVER_assert(fo.p != f.g || j >= (size_t)fo.p || (VB_AF_SKIPPED(&f, (int64_t)j) && (int64_t)j >= f.ovl_off && (int64_t)j < f.ovl_end) || ob[j] == VB_AF_BYTE(&f, (int64_t)j), "C02/%s/image/re-encoding-reproduces-the-bytes");
}
''' % (maxlen + 8, cn, cn, cn, maxlen + 8, rd['fn'], selfy('y0', rd), cn, rd['fn'], selfy('y', rd),
       shape_expr(info, cn, 'y', 'y0'), wr['fn'], selfy('y', wr), cn, cn, cn)
    scen = []
    for k, im in enumerate(images):
        osz = len(im['image']); ln = osz + len(im['pad'])
        offs = list(range(16, osz, 8))
        if tier == 'quick' and osz > 160:
            # quick tier: large images get the windows over their first 64 bytes only (every window in thorough)
            offs = offs[:6]
        scen.append((k, ln, osz, 0, 1))        # unmodified image (value unchanged)
        for o in offs: scen.append((k, ln, osz, o, 0))
    jobs = []
    for c in range(0, len(scen), CHUNK):
        src = pre + 'void harness(void)\n{\n'
        for (k, ln, osz, o, first) in scen[c:c + CHUNK]:
            src += '    scenario(IMG%d, %d, %d, %d, %d);\n' % (k, ln, osz, o, first)
        src += '    __CPROVER_assert(0, "canary");\n}\n'
        jobs.append(core.Job('C02_%s_images_%d' % (cn, c // CHUNK), src, route='harness', unwind=maxlen + 20,
                             functions=['%s::read' % cn, '%s::write' % cn], canary_ids=['harness.assertion.1'], timeout=420,
                             flags=['--object-bits', '12']))
    return jobs, len(scen)


def main():
    meta = core.ensure_extracted()
    info = classinfo.Info(meta)
    t = core.tier()
    only = [a for a in sys.argv[1:] if not a.startswith('-') and a not in ('quick', 'thorough')]
    by, nobj = collect_images(info)
    skip = {e['src']: e['reason'] for e in json.load(open(os.path.join(core.VERIF, 'spec', 'undecodable_images.json')))['images']}
    skipped = []
    for cn in by:
        keep = []
        for im in by[cn]:
            if im['src'] in skip: skipped.append('%s: %s' % (im['src'], skip[im['src']]))
            else: keep.append(im)
        by[cn] = keep
    by = {k: v for k, v in by.items() if v}
    jobs = []; nscen = 0; nimg = 0
    for cn in sorted(by):
        if only and cn not in only: continue
        imgs = by[cn]
        if t == 'quick':
            # one image per distinct (objectSize, source directory) shape, at most 3 per class
            seen = {}; sel = []
            for im in imgs:
                key = len(im['image'])
                if key in seen: continue
                seen[key] = 1; sel.append(im)
            imgs = sel[:2]
        nimg += len(imgs)
        js, n = image_jobs(info, cn, imgs, t)
        jobs += js; nscen += n
    rep = core.Report('C02')
    rep.assumptions = ['the overwrite of fields the encoder recomputes (objectSize, headerSize, length fields, structLength) to a DIFFERENT value is outside the domain (shape change); bytes 0..15 (base header) are not overwritten, as the property states',
                       'quick tier: up to 3 images per class with distinct object sizes; thorough tier: all %d reference objects and the lobj samples' % nobj]
    rep.notes = dict(images=nimg, scenarios=nscen, reference_objects_found_by_walker=nobj, classes=len(by))
    results = core.run_jobs(jobs)
    rep.add_results(results)
    core.triage(rep, results, info)
    rep.validate_translation(info)
    return rep.finish('proof', 'goto-cc | cbmc --unwind <image length> --unwinding-assertions ' + ' '.join(bc.FLAGS) + ' (decode/encode harness on the extracted codecs over concrete reference images with a symbolic 8-byte window)',
                      core.TRUSTED_BASE + ['tools/blfwalk.py: independent stdlib-only walker that extracts the object images'],
                      extra=dict(images=nimg, window_scenarios=nscen, exhaustive=(t == 'thorough'), images_outside_domain=skipped))

if __name__ == '__main__':
    core.main_wrapper(main)
