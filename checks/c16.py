"""C16 - the object queue is a bounded FIFO with exact end-of-stream and abort.

Every function of ObjectQueue<ObjectHeaderBase> (extracted from ObjectQueue.cpp) is checked against its contract
over the abstract view (ghost sequence numbers head/tail and the element at ONE arbitrary sequence number J):
pre-state arbitrary within the representation invariant, postconditions and frame asserted.  The functions are
loop free, so each query is a complete proof for queues of ANY length and - by induction over the operations,
each preserving the invariant - for histories of any length.  The destructor's loop carries a loop contract.
The interleaving half of the property's quantifier is NOT explored (sequential contracts; see C06/C07).
"""
import sys, os
sys.path.insert(0, os.path.dirname(os.path.dirname(os.path.abspath(__file__))))
from run import core, classinfo

FLAGS = ['--bounds-check', '--pointer-check', '--signed-overflow-check', '--object-bits', '12']

PRE = r'''
#define VB_MODELS_CUSTOM 1
#include "models_ghost.h"
/* sequential meaning of the condition variable operations: wait returns only when its predicate holds */
int vb_blocked;
#define VB_WAIT(cv, pred) do { if (!(pred)) { vb_blocked = 1; __CPROVER_assume(0); } } while (0)
#include "blf.h"
int vb_exc; int vb_caught; uint64_t VB_J; int vb_list_overflow;
struct ObjectHeaderBase *vb_nondet_obj(void) { struct ObjectHeaderBase *p; __CPROVER_assume(p != 0); return p; }   /* queued elements are objects, never null */
uint64_t vb_deleted; int vb_deleted_J; struct ObjectHeaderBase *vb_deleted_ptr_J; uint64_t vb_cur_seq;
void ObjectHeaderBase_v_delete(struct ObjectHeaderBase *p) { vb_deleted++; }
#include "ObjectQueue.c"
/* abstract state */
#define RI(q) ((q).m_queue.head_seq <= (q).m_queue.tail_seq && (q).m_queue.tail_seq - (q).m_queue.head_seq <= 0xffffffffull && (q).m_queue.tail_seq <= ((uint64_t)1 << 62) && \
    (!((q).m_queue.head_seq <= VB_J && VB_J < (q).m_queue.tail_seq) || (q).m_queue.at_J != 0))
#define EMPTY(q) ((q).m_queue.head_seq == (q).m_queue.tail_seq)
#define SIZE(q) ((q).m_queue.tail_seq - (q).m_queue.head_seq)
static void frame_rest(struct ObjectQueue *a, struct ObjectQueue *b) { }
'''


def A(label, cond):
    return '    __CPROVER_assert(%s, "C16/ObjectQueue/%s");\n' % (cond, label)


def jobs():
    out = []
    def mk(name, body, ncanary, functions):
        src = PRE + 'void harness(void)\n{\n    struct ObjectQueue q, o; struct ObjectHeaderBase *obj; uint32_t n;\n    { uint64_t t; VB_J = t; }   /* the observed sequence number is arbitrary */\n    __CPROVER_assume(RI(q)); o = q; vb_exc = 0;\n' + body + '    __CPROVER_assert(0, "canary");\n}\n'
        out.append(core.Job('C16_ObjectQueue_' + name, src, route='harness', flags=FLAGS, functions=functions,
                            canary_ids=['harness.assertion.%d' % ncanary], timeout=300))
    # ---- read
    b = '    struct ObjectHeaderBase *r = ObjectQueue_read(&q);\n'
    asserts = [
        ('read/returns-null-iff-queue-empty', '(r == 0) == EMPTY(o)'),
        ('read/null-only-when-empty-and-(abort-or-declared-size-consumed)', 'r != 0 || (EMPTY(o) && (o.m_abort || o.m_tellg >= o.m_fileSize))'),
        ('read/empty-sets-eof-and-fail-and-changes-nothing-else', '!EMPTY(o) || (q.m_rdstate == (IOS_eofbit | IOS_failbit) && q.m_queue.head_seq == o.m_queue.head_seq && q.m_tellg == o.m_tellg)'),
        ('read/non-empty-returns-the-oldest-element-(FIFO-at-J)', 'EMPTY(o) || o.m_queue.head_seq != VB_J || r == o.m_queue.at_J'),
        ('read/non-empty-removes-exactly-the-oldest-element', 'EMPTY(o) || (q.m_queue.head_seq == o.m_queue.head_seq + 1 && q.m_tellg == (uint32_t)(o.m_tellg + 1) && q.m_rdstate == IOS_goodbit)'),
        ('read/frame-tail-capacity-declared-size-abort-unchanged', 'q.m_queue.tail_seq == o.m_queue.tail_seq && q.m_queue.at_J == o.m_queue.at_J && q.m_tellp == o.m_tellp && q.m_fileSize == o.m_fileSize && q.m_bufferSize == o.m_bufferSize && q.m_abort == o.m_abort'),
        ('read/notifies-the-producer-side', 'q.tellgChanged.notified != o.tellgChanged.notified'),
        ('read/preserves-representation-invariant', 'RI(q)'),
    ]
    for l, c in asserts: b += A(l, c)
    mk('read', b, len(asserts) + 1, ['ObjectQueue::read'])
    # ---- read wait predicate (P1, P2)
    from checks.c15 import pred_call
    pc_, d_ = pred_call('ObjectQueue_read__waitpred', '&q', ('obj', 'n'))
    b = d_ + '    _Bool w = %s;\n' % pc_
    asserts = [('read/wait-predicate-is-abort-or-nonempty-or-declared-size-consumed', 'w == (q.m_abort || !EMPTY(q) || q.m_tellg >= q.m_fileSize)'),
               ('read/abort-releases-a-waiting-consumer', '!q.m_abort || w')]
    for l, c in asserts: b += A(l, c)
    mk('read_waitpred', b, len(asserts) + 1, ['ObjectQueue::read wait predicate'])
    # ---- write
    b = '    __CPROVER_assume(obj != 0 && SIZE(q) < 0xffffffffull && q.m_queue.tail_seq < ((uint64_t)1 << 62));   /* fewer than 2^32 queued objects (memory bound) */\n    ObjectQueue_write(&q, obj);\n'
    asserts = [
        ('write/appends-exactly-one-element-at-the-tail', 'q.m_queue.tail_seq == o.m_queue.tail_seq + 1 && q.m_queue.head_seq == o.m_queue.head_seq'),
        ('write/the-appended-element-is-the-argument-(FIFO-at-J)', 'o.m_queue.tail_seq != VB_J || q.m_queue.at_J == obj'),
        ('write/older-elements-untouched', 'o.m_queue.tail_seq == VB_J || q.m_queue.at_J == o.m_queue.at_J'),
        ('write/put-count-advances-and-declared-size-never-lags', 'q.m_tellp == (uint32_t)(o.m_tellp + 1) && q.m_fileSize == ((uint32_t)(o.m_tellp + 1) > o.m_fileSize ? (uint32_t)(o.m_tellp + 1) : o.m_fileSize)'),
        ('write/frame', 'q.m_tellg == o.m_tellg && q.m_bufferSize == o.m_bufferSize && q.m_abort == o.m_abort && q.m_rdstate == o.m_rdstate'),
        ('write/notifies-the-consumer-side', 'q.tellpChanged.notified != o.tellpChanged.notified'),
        ('write/no-exception', 'vb_exc == 0'),
        ('write/preserves-representation-invariant', 'RI(q)'),
    ]
    for l, c in asserts: b += A(l, c)
    mk('write', b, len(asserts) + 1, ['ObjectQueue::write'])
    pc_, d_ = pred_call('ObjectQueue_write__waitpred', '&q', ('obj', 'n'))
    b = d_ + '    _Bool w = %s;\n' % pc_
    asserts = [('write/wait-predicate-holds-producer-back-at-capacity', 'w == (q.m_abort || (uint32_t)SIZE(q) < q.m_bufferSize)'),
               ('write/abort-releases-a-waiting-producer', '!q.m_abort || w')]
    for l, c in asserts: b += A(l, c)
    mk('write_waitpred', b, len(asserts) + 1, ['ObjectQueue::write wait predicate'])
    # ---- abort / setFileSize / setBufferSize / accessors
    b = '    ObjectQueue_abort(&q);\n'
    asserts = [('abort/sets-abort-and-notifies-both-sides', 'q.m_abort && q.tellgChanged.notified != o.tellgChanged.notified && q.tellpChanged.notified != o.tellpChanged.notified'),
               ('abort/frame', 'q.m_queue.head_seq == o.m_queue.head_seq && q.m_queue.tail_seq == o.m_queue.tail_seq && q.m_tellg == o.m_tellg && q.m_tellp == o.m_tellp && q.m_fileSize == o.m_fileSize && q.m_bufferSize == o.m_bufferSize && q.m_rdstate == o.m_rdstate')]
    for l, c in asserts: b += A(l, c)
    mk('abort', b, len(asserts) + 1, ['ObjectQueue::abort'])
    b = '    ObjectQueue_setFileSize(&q, n);\n'
    asserts = [('setFileSize/sets-declared-size-and-wakes-the-consumer', 'q.m_fileSize == n && q.tellpChanged.notified != o.tellpChanged.notified'),
               ('setFileSize/frame', 'q.m_queue.head_seq == o.m_queue.head_seq && q.m_queue.tail_seq == o.m_queue.tail_seq && q.m_tellg == o.m_tellg && q.m_tellp == o.m_tellp && q.m_abort == o.m_abort && q.m_bufferSize == o.m_bufferSize && q.m_rdstate == o.m_rdstate')]
    for l, c in asserts: b += A(l, c)
    mk('setFileSize', b, len(asserts) + 1, ['ObjectQueue::setFileSize'])
    b = '    ObjectQueue_setBufferSize(&q, n);\n'
    asserts = [('setBufferSize/sets-capacity-only', 'q.m_bufferSize == n && q.m_fileSize == o.m_fileSize && q.m_queue.head_seq == o.m_queue.head_seq && q.m_queue.tail_seq == o.m_queue.tail_seq && q.m_abort == o.m_abort && q.m_tellg == o.m_tellg && q.m_tellp == o.m_tellp')]
    for l, c in asserts: b += A(l, c)
    mk('setBufferSize', b, len(asserts) + 1, ['ObjectQueue::setBufferSize'])
    b = '    uint32_t tg = ObjectQueue_tellg(&q); uint32_t tp = ObjectQueue_tellp(&q); _Bool gd = ObjectQueue_good(&q); _Bool ef = ObjectQueue_eof(&q);\n'
    asserts = [('accessors/tellg-tellp-good-eof-report-the-state', 'tg == o.m_tellg && tp == o.m_tellp && gd == (o.m_rdstate == IOS_goodbit) && ef == ((o.m_rdstate & IOS_eofbit) != 0)'),
               ('accessors/pure', 'q.m_queue.head_seq == o.m_queue.head_seq && q.m_queue.tail_seq == o.m_queue.tail_seq && q.m_tellg == o.m_tellg && q.m_tellp == o.m_tellp && q.m_fileSize == o.m_fileSize && q.m_abort == o.m_abort && q.m_rdstate == o.m_rdstate')]
    for l, c in asserts: b += A(l, c)
    mk('accessors', b, len(asserts) + 1, ['ObjectQueue::tellg', 'ObjectQueue::tellp', 'ObjectQueue::good', 'ObjectQueue::eof'])
    # ---- constructor
    src = PRE + 'void harness(void)\n{\n    struct ObjectQueue q;\n    ObjectQueue_ctor(&q);\n'
    src += A('ctor/empty-not-aborted-unbounded-good', 'EMPTY(q) && !q.m_abort && q.m_tellg == 0 && q.m_tellp == 0 && q.m_bufferSize == 0xffffffffu && q.m_fileSize == 0xffffffffu && q.m_rdstate == IOS_goodbit && RI(q)')
    src += '    __CPROVER_assert(0, "canary");\n}\n'
    out.append(core.Job('C16_ObjectQueue_ctor', src, route='harness', flags=FLAGS, functions=['ObjectQueue::ObjectQueue'], canary_ids=['harness.assertion.2']))
    # ---- destructor (loop contract): every queued object deleted exactly once (C13 shares this obligation)
    src = PRE.replace('void ObjectHeaderBase_v_delete(struct ObjectHeaderBase *p) { vb_deleted++; }',
                      'uint64_t vb_head0;\nvoid ObjectHeaderBase_v_delete(struct ObjectHeaderBase *p) { vb_deleted++; }')
    src = src.replace('#include "ObjectQueue.c"', '''#define LOOP_ObjectQueue_dtor_1 \\
    __CPROVER_assigns(self->m_queue.head_seq, vb_deleted) \\
    __CPROVER_loop_invariant(vb_head0 <= self->m_queue.head_seq && self->m_queue.head_seq <= self->m_queue.tail_seq) \\
    __CPROVER_loop_invariant((uint64_t)vb_deleted == self->m_queue.head_seq - vb_head0) \\
    __CPROVER_decreases(self->m_queue.tail_seq - self->m_queue.head_seq)
#include "ObjectQueue.c"''')
    src += 'void harness(void)\n{\n    struct ObjectQueue q, o;\n    { uint64_t t; VB_J = t; }\n    __CPROVER_assume(RI(q)); o = q; vb_deleted = 0; vb_head0 = q.m_queue.head_seq;\n    ObjectQueue_dtor(&q);\n'
    src += A('dtor/deletes-every-queued-object-exactly-once', '(uint64_t)vb_deleted == SIZE(o) && EMPTY(q)')
    src += A('dtor/aborts-first-(releases-waiters)', 'q.m_abort')
    src += '    __CPROVER_assert(0, "canary");\n}\n'
    out.append(core.Job('C16_ObjectQueue_dtor', src, route='harness', loop_contracts=True, flags=FLAGS, functions=['ObjectQueue::~ObjectQueue'],
                        canary_ids=['harness.assertion.3'], expect_kinds=[r'loop invariant is preserved', r'decreases clause'],
                        labels={'re:loop invariant before entry': 'C16/ObjectQueue/dtor/loop-invariant-on-entry',
                                're:loop invariant is preserved': 'C16/ObjectQueue/dtor/loop-invariant-preserved-(one-delete-per-pop)',
                                're:decreases clause': 'C16/ObjectQueue/dtor/loop-terminates'}))
    return out


def main():
    meta = core.ensure_extracted()
    info = classinfo.Info(meta)
    js = jobs()
    only = [a for a in sys.argv[1:] if not a.startswith('-') and a not in ('quick', 'thorough')]
    if only: js = [j for j in js if any(o in j.name for o in only)]
    rep = core.Report('C16')
    rep.assumptions = ['std::queue is modelled by sequence numbers and the element at one arbitrary position (ghost index J)',
                       'condition_variable::wait(lock, pred) returns only when pred holds; mutual exclusion by the mutex every method takes first (syntactic fact recorded by the extractor)',
                       'the interleaving half of the quantifier (producer/consumer schedules) is not explored by sequential contracts']
    results = core.run_jobs(js)
    rep.add_results(results)
    core.triage(rep, results, info)
    if not only: rep.validate_stage_translation()
    return rep.finish('proof', 'goto-cc | [goto-instrument --apply-loop-contracts] | cbmc ' + ' '.join(FLAGS) + ' (assume-pre / assert-post harness per function over the abstract queue view)', core.TRUSTED_BASE)

if __name__ == '__main__':
    core.main_wrapper(main)
