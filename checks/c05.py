"""C05 - file header statistics are exact and agree with the reader's running counters.

 * accumulator clauses on the four transfer functions, open and close (checks/file_common.py);
 * the reader-side agreement on the 170 Vector-written reference logs is a FACT ABOUT THE FIXTURES, not a contract: it is
   observed natively on the real library built from the working tree (harness/native/reader_counters.cpp) and
   reported separately in the evidence (coverage.native_reference_logs); a disagreement names the file.
"""
import sys, os, subprocess, glob, hashlib
sys.path.insert(0, os.path.dirname(os.path.dirname(os.path.abspath(__file__))))
from run import core, classinfo
from checks import file_common


def native_counters(rep):
    from harness import replay_gen
    try:
        d = replay_gen.ensure_native()
    except core.Inconclusive as e:
        rep.inconclusive.append(str(e)); return
    nd = os.path.join(core.BUILD, 'nativebin'); os.makedirs(nd, exist_ok=True)
    src = os.path.join(core.VERIF, 'harness', 'native', 'reader_counters.cpp'); exe = os.path.join(nd, 'reader_counters')
    lib = os.path.join(d, 'src', 'Vector', 'BLF')
    p = subprocess.run(['g++', '-std=c++11', '-g', '-fsanitize=address,undefined', '-I', os.path.join(core.REPO, 'src'), '-I', os.path.join(d, 'src'),
                        src, '-o', exe, '-L', lib, '-lVector_BLF', '-Wl,-rpath,' + lib, '-lpthread'], stdout=subprocess.PIPE, stderr=subprocess.STDOUT, text=True)
    if p.returncode != 0:
        rep.inconclusive.append('native reader-counter probe does not compile: ' + p.stdout[-300:]); return
    files = sorted(glob.glob(os.path.join(core.REPO, 'src/Vector/BLF/tests/unittests/events_from_*/*.blf')))
    try:
        r = subprocess.run([exe] + files, stdout=subprocess.PIPE, stderr=subprocess.PIPE, text=True, timeout=300,
                           env=dict(os.environ, ASAN_OPTIONS='detect_leaks=0'))
    except subprocess.TimeoutExpired:
        rep.inconclusive.append('native reader-counter probe timed out'); return
    bad = [l for l in r.stdout.splitlines() if '.blf:' in l]
    rep.notes['native_reference_logs'] = dict(files=len(files), disagreements=len(bad),
                                              what='real library (working tree, ASan+UBSan) reads each reference log to the end; currentObjectCount / currentUncompressedFileSize compared with the header fields')
    for l in bad[:5]:
        path = rep.write_replay('C05_reference_log_%s' % hashlib.md5(l.encode()).hexdigest()[:8], dict(property='C05', obligation='C05/native/reference-log-counters-agree-with-the-header', observation=l))
        rep.violations.append(('C05/native/reference-log-counters-agree-with-the-header: ' + l, path, False))


def main():
    meta = core.ensure_extracted()
    rc_holder = {}
    def hook(rep): native_counters(rep)
    def extra(info):
        # the container payload size the counters add up is the stream's gcount: its contract (C15 read) is discharged here too
        from checks import c15
        return [core.borrow(j, 'C15', 'C05') for j in c15.jobs(1, 600) if j.name.split('UncompressedFile_')[-1] == 'read']
    return file_common.run_property('C05', post_hook=hook, extra_jobs=extra)


if __name__ == '__main__':
    core.main_wrapper(main)
