"""C17 - type codes agree between constructors, the object factory and files.

 * File::createObject: one query over the full 32-bit code domain against spec/type_table.json
   (an oracle built from two independent places in the repository and re-derived on every run).
 * per class D: constructor postcondition (code assigned to D by the table, signature, header version,
   class tag) and constructor determinism as a 2-safety property: two constructions in two independent
   nondeterministic memory backgrounds agree on every data member.
 * 'maps back to itself' is the composition of the two contracts through the table (no extra obligation).
Loop-free harnesses over full-domain symbolic inputs: complete proofs.
"""
import sys, os, json, re
sys.path.insert(0, os.path.dirname(os.path.dirname(os.path.abspath(__file__))))
from run import core, classinfo
from run.classinfo import cid


def rederive_table(info):
    """the oracle is re-derived from ObjectHeaderBase.h and File.h and must still agree with the committed table"""
    h = open(os.path.join(core.SRC, 'ObjectHeaderBase.h')).read()
    enum = h[h.index('enum class ObjectType'):]
    enum = enum[:enum.index('};')]
    codes = {m.group(1): int(m.group(2)) for m in re.finditer(r'^\s*(\w+)\s*=\s*(\d+)', enum, re.M)}
    f = open(os.path.join(core.SRC, 'File.h')).read()
    table = {}
    for m in re.finditer(r'^#include <Vector/BLF/(\w+)\.h>[ \t]*//[ \t]*(\w+)[ \t]*=[ \t]*(\d+)', f, re.M):
        cls, name, code = m.group(1), m.group(2), int(m.group(3))
        if codes.get(name) != code:
            raise core.Inconclusive('type table oracle: File.h says %s = %d, ObjectHeaderBase.h says %s' % (name, code, codes.get(name)))
        table[str(code)] = cls
    spec = {c: e['cls'] for c, e in info.spec_types['codes'].items()}
    if spec != table:
        diff = sorted(set(spec.items()) ^ set(table.items()))[:4]
        raise core.Inconclusive('type table oracle: spec/type_table.json disagrees with the table re-derived from File.h/ObjectHeaderBase.h (%s); the oracle needs a human' % diff)
    return codes


PRE = '''#define VB_ALLOC(n) vb_alloc_ok(n)
#include <stdlib.h>
static void *vb_alloc_ok(unsigned long n) { void *p = malloc(n); __CPROVER_assume(p != 0); return p; }
#include "blf.h"
int vb_exc; int vb_caught;
#include "vec_count.h"
'''


def factory_job(info):
    deps = set()
    for cn in set(e['cls'] for e in info.spec_types['codes'].values()):
        deps |= set(info.deps(cn))
    src = PRE
    for d in sorted(deps):
        if d in ('UncompressedFile', 'CompressedFile', 'ObjectQueue', 'File'): continue
        src += '#include "%s.c"\n' % d
    # only File::createObject from File.c
    fc = open(os.path.join(core.GEN, 'File.c')).read()
    m = re.search(r'(/\* from File\.cpp:\d+ \*/\n#ifndef CONTRACT_File_createObject.*?\n}\n)', fc, re.S)
    if not m: raise core.Inconclusive('File_createObject not found in the extracted File.c')
    src += m.group(1)
    src += 'uint32_t in_code;\nstatic uint32_t spec_class(uint32_t code) {\n    switch (code) {\n'
    for c, e in sorted(info.spec_types['codes'].items(), key=lambda x: int(x[0])):
        src += '    case %s: return CLS_%s;\n' % (c, e['cls'])
    src += '    default: return 0;\n    }\n}\n'
    src += '''void harness(void)
{
    uint32_t code; in_code = code;
    struct ObjectHeaderBase *o = File_createObject(code);
    __CPROVER_assert(vb_exc == 0, "C17/File/createObject/no-exception");
    uint32_t want = spec_class(code);
    __CPROVER_assert((want == 0) == (o == 0), "C17/File/createObject/null-iff-code-has-no-class");
    if (o != 0) {
        __CPROVER_assert(o->cls__ == want, "C17/File/createObject/class-assigned-by-the-format");
        __CPROVER_assert(__CPROVER_r_ok(o, sizeof(*o)), "C17/File/createObject/result-is-a-live-object");
    }
    __CPROVER_assert(0, "canary");
}
'''
    return core.Job('C17_File_createObject', src, route='harness', functions=['File::createObject'],
                    canary_ids=['harness.assertion.5'], timeout=600,
                    flags=['--bounds-check', '--pointer-check', '--signed-overflow-check', '--object-bits', '12'])


HEADER_VERSION = {'ObjectHeader': 1, 'ObjectHeader2': 2, 'VarObjectHeader': 3}


def ctor_job(info, cn):
    c = info.classes[cn]
    deps = info.deps(cn)
    src = PRE
    for d in deps:
        if d in ('UncompressedFile', 'CompressedFile', 'ObjectQueue', 'File'): continue
        src += '#include "%s.c"\n' % d
    ohb = info.ohb(cn)
    O = (ohb + '.') if ohb else ''
    codes = info.class_codes(cn)
    src += 'void harness(void)\n{\n    struct %s a, b;\n    size_t k;\n    %s_ctor(&a); %s_ctor(&b);\n' % (cn, cn, cn)
    n = 0
    def A(cond, label):
        nonlocal src, n
        src += '    __CPROVER_assert(%s, "%s");\n' % (cond, label); n += 1
    if codes:
        A(' || '.join('a.%sobjectType == %du' % (O, x) for x in codes), 'C17/%s/ctor/objectType-is-a-code-the-factory-maps-to-this-class' % cn)
    if ohb is not None:
        A('a.%ssignature == 0x4A424F4Cu' % O, 'C17/%s/ctor/signature' % cn)
        A('a.%scls__ == CLS_%s' % (O, cn), 'C17/%s/ctor/class-tag' % cn)
        hv = None
        for b in [cn] + c['all_bases']:
            if b in HEADER_VERSION: hv = HEADER_VERSION[b]
        if cn == 'LogContainer': hv = 1
        if hv is not None:
            A('a.%sheaderVersion == %d' % (O, hv), 'C17/%s/ctor/headerVersion-matches-header-type' % cn)
    for l in info.leaves(cn):
        p = l['path']
        lab = 'C17/%s/ctor/determined:%s' % (cn, p)
        if l['kind'] == 'scalar' and l['ctype'] in classinfo.SIZES:
            if l['ctype'] == 'double':
                A('*(uint64_t *)&a.%s == *(uint64_t *)&b.%s' % (p, p), lab)
            else:
                A('a.%s == b.%s' % (p, p), lab)
        elif l['kind'] == 'array':
            A('k >= %d || a.%s.e[k] == b.%s.e[k]' % (l['count'], p, p), lab)
        elif l['kind'] == 'vec':
            A('a.%s.size == 0 && b.%s.size == 0' % (p, p), lab)
    A('0', 'canary')
    src += '}\n'
    return core.Job('C17_%s_ctor' % cn, src, route='harness', functions=['%s::%s' % (cn, cn)],
                    canary_ids=['harness.assertion.%d' % n], timeout=300,
                    flags=['--bounds-check', '--pointer-check', '--signed-overflow-check', '--object-bits', '12'])


def make_replayer(info):
    from harness import replay_gen
    def replayer(job, label, vals, data):
        parts = label.split('/')
        cn, clause = parts[1], parts[3]
        if parts[2] != 'ctor' or not (info.is_object(cn) and info.classes[cn]['default_constructible']):
            return None, 'no native driver'
        if clause.startswith('determined:'):
            path = clause[len('determined:'):]
            res, err = replay_gen.run_driver(info, 'class %s\npoisonctor %s\n' % (cn, path))
            data['native_result'] = res
            if 'a' not in res: return None, 'no result'
            return res['a'] != res['b'], 'member %s after construction in memory filled with 0xAA: %s, with 0x55: %s' % (path, res['a'], res['b'])
        if clause.startswith('objectType'):
            res, err = replay_gen.run_driver(info, 'class %s\npoisonctor objectType\n' % cn) if False else replay_gen.run_driver(info, 'class %s\nwrite\n' % cn)
            data['native_result'] = res
            if 'objectType' not in res: return None, 'no result'
            return res['objectType'] not in info.class_codes(cn), 'default-constructed %s carries objectType %s; the factory maps codes %s to this class' % (cn, res['objectType'], info.class_codes(cn))
        return None, 'clause has no native observation point'
    return replayer


def main():
    meta = core.ensure_extracted()
    info = classinfo.Info(meta)
    rederive_table(info)
    only = [a for a in sys.argv[1:] if not a.startswith('-') and a not in ('quick', 'thorough')]
    classes = sorted(set(e['cls'] for e in info.spec_types['codes'].values()))
    jobs = []
    if not only or 'File' in only: jobs.append(factory_job(info))
    for cn in classes:
        if only and cn not in only: continue
        jobs.append(ctor_job(info, cn))
    rep = core.Report('C17')
    rep.assumptions = ['operator new succeeds (allocation failure is C10)', 'spec/type_table.json is the format\'s code assignment (re-derived from ObjectHeaderBase.h and File.h on every run; both must agree)',
                       'uninitialised storage is modelled as nondeterministic content (CBMC locals), which over-approximates every poison pattern']
    results = core.run_jobs(jobs)
    rep.add_results(results)
    core.triage(rep, results, info, replayer=make_replayer(info))
    rep.validate_translation(info)
    return rep.finish('proof', 'goto-cc | cbmc --bounds-check --pointer-check --signed-overflow-check --object-bits 12 (loop-free harnesses, full 32-bit code domain / nondeterministic memory backgrounds)',
                      core.TRUSTED_BASE)

if __name__ == '__main__':
    core.main_wrapper(main)
