"""C03 - every written object is framed exactly as its own header declares.

One DFCC pipeline per codec class T: T_write is enforced against the uniform codec
contract (DESIGN.md 5.2) in the COUNT flavour with AbstractFile::write / skipp
replaced by their contracts.  Codec bodies have no loops, so each query is
unbounded in payload length.
"""
import sys, os, json
sys.path.insert(0, os.path.dirname(os.path.dirname(os.path.abspath(__file__))))
from run import core, classinfo
from run.classinfo import cid


def write_contract(info, cn, extra_requires=None):
    """-> (contract macro text, input decls, labels, nslots)"""
    c = info.classes[cn]
    leaves = info.leaves(cn)
    ohb = info.ohb(cn)
    O = ('self->%s.' % ohb if ohb else 'self->') if ohb is not None else None
    is_obj = ohb is not None
    vecs = [l for l in leaves if l['kind'] == 'vec' and not info.derived('not_serialised', l['owner'], l['name'])]
    allvecs = [l for l in leaves if l['kind'] == 'vec']
    if len(vecs) > 6: raise core.Inconclusive('%s has more than 6 containers (watch slots)' % cn)
    req = ['__CPROVER_is_fresh(self, sizeof(*self)) && __CPROVER_is_fresh(os, sizeof(*os))']
    ins = []
    assigns = ['AF_COUNT_ASSIGNS(os)']
    for i, v in enumerate(vecs):
        lf = info.length_field(v)
        bound = classinfo.MAXV.get(lf[1], 0x0fffffff) if lf else 0x0fffffff
        esz = classinfo.SIZES[v['elem']]
        req.append('self->%s.size <= %du && __CPROVER_is_fresh(self->%s.data, self->%s.size * %d)' % (v['path'], bound, v['path'], v['path'], esz))
        req.append('os->w_ptr%d == (const char *)self->%s.data && os->w.hit%d == 0 && os->w.n%d == 0' % (i, v['path'], i, i))
        ins.append(('size_t', 'in_%s__size' % cid(v['path']), 'self->%s.size' % v['path']))
    for v in allvecs:
        if v not in vecs:
            req.append('self->%s.size <= %du && __CPROVER_is_fresh(self->%s.data, self->%s.size * %d)' % (
                v['path'], 0x0fffffff, v['path'], v['path'], classinfo.SIZES[v['elem']]))
    for i in range(len(vecs), 6):
        req.append('os->w_ptr%d == 0 && os->w.hit%d == 0' % (i, i))
    req.append('vb_exc == 0 && os->p >= 0 && os->p <= ((int64_t)1 << 40) && os->sk.nskip == 0 && os->sk.last_skip_end == -1 && os->hdr_end == -1')
    for l in leaves:
        if l['kind'] == 'scalar' and l['ctype'] in classinfo.SIZES and l['ctype'] != 'double':
            ins.append((l['ctype'], 'in_' + cid(l['path']), 'self->' + l['path']))
    for (ty, name, lv) in ins:
        req.append('%s == %s' % (lv, name))
    if extra_requires: req.append(extra_requires)
    ens = []   # (label, text)
    ens.append(('E0-no-exception', 'vb_exc == 0'))
    header_only = cn in ('ObjectHeaderBase', 'ObjectHeader', 'ObjectHeader2', 'VarObjectHeader')
    for l in leaves:
        if l['kind'] == 'scalar' and info.derived('recomputed_on_write', l['owner'], l['name']):
            assigns.append('self->' + l['path'])
    if is_obj:
        assigns += [O + 'headerSize', O + 'objectSize']
        if header_only:
            ens.append(('E1-headerSize-equals-header-bytes', 'os->p - __CPROVER_old(os->p) == %sheaderSize' % O))
        else:
            ens.append(('E1-headerSize-equals-header-bytes', 'os->hdr_end - __CPROVER_old(os->p) == %sheaderSize' % O))
        if info.pads(cn):
            ens.append(('E2-objectSize-equals-bytes-emitted', 'os->p - __CPROVER_old(os->p) == (int64_t)%sobjectSize + %sobjectSize %% 4' % (O, O)))
            ens.append(('E3-padding-is-objectSize-mod-4-zero-bytes', 'os->sk.last_skip_end == os->p && os->sk.last_skip_n == %sobjectSize %% 4' % O))
        else:
            ens.append(('E2-objectSize-equals-bytes-emitted', 'os->p - __CPROVER_old(os->p) == (int64_t)%sobjectSize' % O))
        ens.append(('E5-size-fields-are-the-calculated-sizes', '%sobjectSize == %s && %sheaderSize == %s' % (
            O, info.call(cn, 'calculateObjectSize'), O, info.call(cn, 'calculateHeaderSize'))))
    for i, v in enumerate(vecs):
        lf = info.length_field(v)
        esz = classinfo.SIZES[v['elem']]
        nbytes = '(int64_t)self->%s.size * %d' % (v['path'], esz)
        if lf:
            assigns.append('self->' + lf[0])
            feq = '(int64_t)self->%s == %s' % (lf[0], nbytes if lf[2] else '(int64_t)self->%s.size' % v['path'])
        else:
            feq = '1'
        if v['nested'] and is_obj:
            ens.append(('E4-%s-emitted-whole-if-emitted' % v['path'],
                        'os->w.hit%d == 0 || (os->w.hit%d == 1 && os->w.n%d == %s && %s)' % (i, i, i, nbytes, feq)))
        elif lf:
            ens.append(('E4-%s-length-field-equals-payload-emitted' % v['path'],
                        'os->w.hit%d == 1 && os->w.n%d == %s && %s' % (i, i, nbytes, feq)))
        else:
            ens.append(('E4-%s-emitted-whole-if-emitted' % v['path'],
                        'os->w.hit%d == 0 || (os->w.hit%d == 1 && os->w.n%d == %s)' % (i, i, i, nbytes)))
    fn = c['vtable']['write']['fn']
    txt = '#define CONTRACT_%s \\\n' % fn
    for r in req: txt += '    __CPROVER_requires(%s) \\\n' % r
    txt += '    __CPROVER_assigns(%s) \\\n' % ', '.join(assigns)
    labels = {}
    ens.append(('canary', 'vb_exc == 12345'))
    for k, (lab, e) in enumerate(ens):
        txt += '    __CPROVER_ensures(%s)%s\n' % (e, ' \\' if k + 1 < len(ens) else '')
        labels['%s.postcondition.%d' % (fn, k + 1)] = 'C03/%s/write/%s' % (cn, lab)
    labels['re:^AbstractFile_v_write\\.precondition'] = 'C03/%s/write/E6-encoding-reads-only-inside-caller-containers' % cn
    labels['re:^AbstractFile_skipp\\.precondition'] = 'C03/%s/write/E3-skipp-argument-in-range' % cn
    labels['re:\\.assigns\\.'] = 'C03/%s/write/F-frame-only-size-and-length-fields-change' % cn
    return txt, ins, labels, fn, '%s.postcondition.%d' % (fn, len(ens))


def harness(info, cn, extra_requires=None, suffix=''):
    txt, ins, labels, fn, canary = write_contract(info, cn, extra_requires)
    deps = info.deps(cn)
    src = '#include "af_count.h"\n' + txt + '#include "blf.h"\nint vb_exc; int vb_caught;\n#include "vec_count.h"\n'
    for (ty, name, lv) in ins:
        src += '%s %s;\n' % (ty, name)
    for d in deps:
        if d in ('File', 'UncompressedFile', 'CompressedFile', 'ObjectQueue'): continue
        src += '#include "%s.c"\n' % d
    src += 'void harness(void)\n{\n'
    for (ty, name, lv) in ins:
        src += '    { %s v; %s = v; }\n' % (ty, name)
    src += '    struct %s *self; struct AbstractFile *os;\n    %s(self, os);\n}\n' % (cn, fn)
    cl = classinfo.calls_closure(info, fn)
    return core.Job('C03_%s_write%s' % (cn, suffix), src, enforce=fn,
                    replace=[f for f in ('AbstractFile_v_write', 'AbstractFile_skipp') if f in cl],
                    labels=labels, expect_kinds=[r'\.postcondition\.', r'AbstractFile_v_write\.precondition'],
                    functions=['%s::write' % cn], timeout=300, canary_ids=[canary])


def make_replayer(info):
    from harness import replay_gen
    def replayer(job, label, vals, data):
        """native replay of a C03 counterexample on the real library (ASan+UBSan build)"""
        parts = label.split('/')
        cn, clause = parts[1], parts[3]
        if not (info.is_object(cn) and info.classes[cn]['default_constructible'] and info.class_codes(cn)):
            return None, 'no native driver for %s' % cn
        lines = replay_gen.script_from_inputs(info, cn, vals)
        capped = any(l.startswith('size ') and int(l.split()[2]) >= (1 << 22) for l in lines)
        lines.append('write')
        vecs = [l for l in info.leaves(cn) if l['kind'] == 'vec']
        for v in vecs:
            lines.append('get %s' % v['path'])
            lf = info.length_field(v)
            if lf: lines.append('get %s' % lf[0])
        res, err = replay_gen.run_driver(info, '\n'.join(lines) + '\n')
        data['native_script'] = lines
        data['native_result'] = res
        if res.get('timeout'): return None, 'native driver timed out'
        if res.get('sanitizer') or res.get('exit', 0) not in (0,):
            return True, 'sanitizer / crash in the real encoder: %s' % (res.get('sanitizer', 'exit %s' % res.get('exit')))[:300]
        if 'emitted' not in res: return None, 'no result from driver'
        em, osz, hs = res['emitted'], res['objectSize'], res['headerSize']
        pad = osz % 4 if info.pads(cn) else 0
        dev = None
        if clause.startswith('E2'):
            dev = (em != osz + pad)
            note = 'emitted %d bytes, objectSize field %d, expected padding %d' % (em, osz, pad)
        elif clause.startswith('E3'):
            dev = (em - osz != pad) or not res['tail_zero']
            note = 'emitted %d, objectSize %d, trailing bytes zero: %s' % (em, osz, res['tail_zero'])
        elif clause.startswith('E5'):
            dev = (osz != res['calcObjectSize']) or (hs != res['calcHeaderSize'])
            note = 'objectSize %d vs calculateObjectSize() %d, headerSize %d vs %d' % (osz, res['calcObjectSize'], hs, res['calcHeaderSize'])
        elif clause.startswith('E4'):
            path = clause[3:].split('-')[0]
            v = [x for x in vecs if x['path'] == path]
            note = ''
            if v and info.length_field(v[0]):
                lf = info.length_field(v[0])
                size = res.get('get:' + path); fld = res.get('get:' + lf[0])
                esz = classinfo.SIZES[v[0]['elem']]
                want = size * esz if lf[2] else size
                dev = (fld != want)
                note = '%s = %s, container %s holds %s elements' % (lf[0], fld, path, size)
                if not dev and em != osz + pad:
                    dev = None
        else:
            return None, 'clause %s has no native observation point' % clause
        if dev is None: return None, note
        if not dev and capped: return None, 'container sizes were capped for the native run: ' + note
        return bool(dev), note
    return replayer


def main():
    meta = core.ensure_extracted()
    info = classinfo.Info(meta)
    only = [a for a in sys.argv[1:] if not a.startswith('-') and a not in ('quick', 'thorough')]
    classes = [c for c in info.codec_classes() if not only or c in only]
    known = {k['job']: k for k in core.load_known() if k.get('property') == 'C03' and k.get('status') == 'open'}
    jobs = []
    for c in classes:
        k = known.get('C03_%s_write' % c)
        jobs.append(harness(info, c, extra_requires=k['exclude_requires'] if k else None))
    # complementary jobs: inside the witness region of a recorded finding the obligations are expected to fail
    comp = [harness(info, c, extra_requires='!(%s)' % known['C03_%s_write' % c]['exclude_requires'], suffix='__finding')
            for c in classes if 'C03_%s_write' % c in known]
    # count-level consumption clause R3 lives in the hostile-stream decode jobs (checks/c10.py); its label is C03's
    from checks import c10
    rjobs = c10.codec_jobs(info, only)
    for j in rjobs: j.name = j.name.replace('C10_', 'C03_')
    rep = core.Report('C03')
    results = core.keep_property(core.run_jobs(jobs + comp + rjobs), 'C03')
    cres = [r for r in results if r.job.name.endswith('__finding')]
    results = [r for r in results if not r.job.name.endswith('__finding')]
    rep.add_results(results)
    for r in cres:
        k = known[r.job.name[:-len('__finding')]]
        failed_labels = {core.label_of(r.job, pid, d) for (pid, d) in r.failed}
        if r.status == 'failed' and failed_labels & set(k['labels']):
            rep.known.append('%s - %s [witness: %s]' % (', '.join(k['labels']), k['what'], k['witness']))
        elif r.status == 'ok':
            rep.known.append('%s - listed finding no longer reproduces inside its witness region (%s)' % (', '.join(k['labels']), k['what']))
        else:
            rep.inconclusive.append('%s: complementary run of a known finding was inconclusive: %s' % (r.job.name, r.reason))
    core.triage(rep, results, info, replayer=make_replayer(info))
    rep.validate_translation(info)
    return rep.finish('proof', 'goto-cc | goto-instrument --dfcc harness --enforce-contract <T>_write --replace-call-with-contract AbstractFile_v_write --replace-call-with-contract AbstractFile_skipp | cbmc ' + ' '.join(core.CBMC_FLAGS),
                      core.TRUSTED_BASE)

if __name__ == '__main__':
    core.main_wrapper(main)
