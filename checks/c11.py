"""C11 - no data races; an object handed over is never touched by the other side again.

Three kinds of obligation, all on the extracted text of the real functions:

 1. hand-over (File.cpp, file_common jobs): File::read/write pass the pointer through and keep no alias; the decoding
    worker does not touch an object after it pushed it to the queue (use-after-hand-over = CBMC's deallocated-object
    check against the queue stub that frees what it was given).
 2. lock discipline of the three stage classes (UncompressedFile, ObjectQueue, CompressedFile): the extractor emits a
    hook before every statement that names a data member (VB_TOUCH read / VB_TOUCH_W may-write; members of type
    std::mutex, std::condition_variable, std::atomic, std::thread excepted; constructors and destructors excepted) and
    turns lock_guard/unique_lock into VB_LOCK at the declaration and VB_UNLOCK on every exit of its scope.  Under
    -DVB_LOCKSET the hook asserts "the object's mutex is held", VB_LOCK asserts "not held yet" (std::mutex is not
    recursive), and each job asserts "released on return".  The jobs are the C15 / C16 / C04 harnesses (every method
    from an arbitrary state within the representation invariant), so the obligation holds on every path of every method.
 3. ownership of File's own members (file_common.ownership_table): the rule per member is DERIVED from the hooks and
    the call graph (who can execute which function); CBMC proves the part that depends on the thread state: e.g.
    close() reads currentUncompressedFileSize / the workers' exception slots only after the join of the worker that
    writes them; the transfer functions run on the application thread only after both joins.

Together: every access to shared state is under the stage mutex, atomic, or ordered by thread start/join - for every
path through every function, not for the schedules a stress run happens to see.  NOT decided: accesses through
pointers handed to callbacks outside the library; the memory model of std::atomic (assumed); TSan-style dynamic checking.
"""
import sys, os, re
sys.path.insert(0, os.path.dirname(os.path.dirname(os.path.abspath(__file__))))
from run import core
from checks import file_common, c15, c16, c04


def must_replace(src, old, new, what):
    if old not in src: raise core.Inconclusive('C11 lockset: pattern for %s not found in the reused harness (renamed?)' % what)
    return src.replace(old, new, 1)


def lockset(job, cls, obj, init_old, init_new, newname):
    """reuse a harness of another property with lock tracking switched on"""
    src = '#define VB_LOCKSET 1\n' + job.source
    src = must_replace(src, init_old, init_new, 'initial lock state')
    rel = '    __CPROVER_assert(%s.m_mutex.held == 0, "C11/%s/lockset/the-mutex-is-released-when-the-operation-returns");\n' % (obj, cls)
    src = must_replace(src, '    __CPROVER_assert(0, "canary");', rel + '    __CPROVER_assert(0, "canary");', 'canary')
    ids = []
    for c in job.canary_ids:
        m = re.match(r'harness\.assertion\.(\d+)$', c)
        ids.append('harness.assertion.%d' % (int(m.group(1)) + 1) if m else c)
    return core.Job(newname, src, route=job.route, flags=job.flags, functions=job.functions, unwind=job.unwind, canary_ids=ids,
                    timeout=job.timeout, loop_contracts=job.loop_contracts, labels=job.labels, bounded=job.bounded)


def lockset_jobs(info, L=2, prefix='C11'):
    js = []
    for j in c15.jobs(L, 600):
        n = j.name.replace('C15_UncompressedFile_', '')
        if n in ('ctor', 'logContainerContaining'): continue      # construction is single-threaded; logContainerContaining is a PRIVATE helper whose contract requires the lock: its hooks are checked inside its callers' jobs (read, write, seekg, ...)
        js.append(lockset(j, 'UncompressedFile', 'u', '    o = u; for', '    u.m_mutex.held = 0; o = u; for', prefix + '_lockset_UncompressedFile_' + n))
    for j in c16.jobs():
        n = j.name.replace('C16_ObjectQueue_', '')
        if n in ('ctor', 'dtor'): continue
        js.append(lockset(j, 'ObjectQueue', 'q', 'o = q; vb_exc = 0;', 'q.m_mutex.held = 0; o = q; vb_exc = 0;', prefix + '_lockset_ObjectQueue_' + n))
    j = c04.compressed_file_job(info)
    js.append(lockset(j, 'CompressedFile', 'c', 'struct CompressedFile c;', 'struct CompressedFile c; c.m_mutex.held = 0;', prefix + '_lockset_CompressedFile_all_methods'))
    return js


def extra(info):
    return lockset_jobs(info)


if __name__ == '__main__':
    core.main_wrapper(lambda: file_common.run_property('C11', extra_jobs=extra, assumptions=[
        'std::atomic members (currentObjectCount, the two "running" flags) are race free by their type; std::thread start/join order the accesses before/after them (C++ memory model, assumed)',
        'the hooks are emitted per statement by the extractor for every data member the statement names; accesses through raw pointers into a member (none in the stage classes) would not be seen',
        'bounded stand-in for UncompressedFile: at most 2 containers held at once (as C15); ObjectQueue, CompressedFile and File jobs are unbounded']))
