"""C15 - the in-memory stream is a byte FIFO with iostream-like state for any chunking.

Every operation of UncompressedFile (extracted from UncompressedFile.cpp) is checked against a contract over the
abstract view "byte at absolute position x" and the representation invariant RI, as an explicit assume-pre /
assert-post harness with snapshot frame assertions:
  * pre-state: ARBITRARY within RI - up to L containers held at once (L = 2 quick, 3 thorough), every position,
    size, offset and transfer length symbolic at full width;
  * payload bytes are not materialised: std::copy is replaced by a stub standing for its assumed contract; the stub
    CHECKS THE ADDRESSING of every chunk (source/destination lie inside the one container that holds the absolute
    position, at offset position - filePosition; the caller-side pointer is s0 + (position - start)) and records
    whether the chunk covers one arbitrary ghost position X; "every delivered position was copied exactly once from
    the right place, in order, without gap or overlap" follows for arbitrary X;
  * loops are unrolled to the held-container bound with unwinding assertions (each iteration finishes a container).
History quantifier: by induction - every operation preserves RI and maps the view as specified.
BOUNDED in the number of containers held simultaneously (stated), unbounded in everything else.
"""
import sys, os
sys.path.insert(0, os.path.dirname(os.path.dirname(os.path.abspath(__file__))))
from run import core, classinfo

FLAGS = ['--bounds-check', '--signed-overflow-check', '--object-bits', '12']


def prelude(L):
    return r'''
#define VB_MODELS_CUSTOM 1
#define VB_L %(L)d
#include "models_ghost.h"
#undef VB_LIST_PUSH_BACK
#define VB_LIST_PUSH_BACK(l, x) do { if ((l).tail < VB_L) { (l).items[(l).tail] = (x); (l).tail++; } else { vb_list_overflow = 1; __CPROVER_assume(0); } } while (0)
int vb_blocked;
struct UncompressedFile; struct vb_cv; void vb_at_wait(struct UncompressedFile *f, struct vb_cv *cv);
#define VB_WAIT(cv, pred) do { vb_at_wait(self, cv); if (!(pred)) { vb_blocked = 1; __CPROVER_assume(0); } } while (0)
/* std::copy(first, last, d) -> VB_COPY(d, first, last): assumed to move the bytes; the ADDRESSING is checked here */
void vb_copy(const void *dst, const void *first, const void *last);
#define VB_COPY(dst, first, last) vb_copy((const void *)(dst), (const void *)(first), (const void *)(last))
#include "blf.h"
struct LogContainer *vb_lc_new(void);
#define LogContainer_new() vb_lc_new()
int vb_exc; int vb_caught; uint64_t VB_J; int vb_list_overflow;
struct ObjectHeaderBase *vb_nondet_obj(void) { struct ObjectHeaderBase *p; return p; }
/* std::vector<uint8_t>, SIZE-ONLY model: the buffer is represented by its base address (a 1-byte object); no content */
void vec_uint8_t_init(struct vec_uint8_t *v) { v->size = 0; }
void vec_uint8_t_free(struct vec_uint8_t *v) { v->size = 0; }
void vec_uint8_t_resize(struct vec_uint8_t *v, size_t n) { v->data = (uint8_t *)malloc(n ? n : 1); __CPROVER_assume(v->data != 0); v->size = n; }   /* fresh buffer of the new size; contents are not modelled */
void vec_uint8_t_assign(struct vec_uint8_t *d, const struct vec_uint8_t *s) { d->size = s->size; }
void vec_char_init(struct vec_char *v) { v->size = 0; v->data = 0; }
void vec_char_free(struct vec_char *v) { }
int vb_skipp_n;
void vec_char_resize(struct vec_char *v, size_t n) { v->size = n; }
/* containers: the ones held initially and a pool for the ones the operation appends */
#define NC (2 * VB_L)
struct LogContainer lc[NC]; int vb_pool_next;
struct UncompressedFile u, o; struct LogContainer olc[NC];
struct LogContainer *vb_lc_new(void)
{
    if (vb_pool_next >= NC) { vb_list_overflow = 1; __CPROVER_assume(0); }    /* more containers than the stated bound: outside the model */
    struct LogContainer *p = &lc[vb_pool_next++];
    p->filePosition = 0; p->uncompressedFileSize = 0; p->uncompressedFile.size = 0; p->compressedFile.size = 0; p->compressedFileSize = 0;
    return p;
}
/* ghost observation of the byte moves */
int64_t X; int vb_hits; int vb_addr_bad; int vb_order_bad; int64_t vb_next_abs; const char *s0; int64_t start0; int vb_dir; /* 1 read, 2 write */
void vb_copy(const void *dst, const void *first, const void *last)
{
    const char *user; const uint8_t *inside; int64_t n;
    n = (const char *)last - (const char *)first;
    if (vb_dir == 1) { user = (const char *)dst; inside = (const uint8_t *)first; }
    else { user = (const char *)first; inside = (const uint8_t *)dst; }
    int found = 0; int64_t abs = 0;
    for (int i = 0; i < NC; i++) {
        if (__CPROVER_same_object(inside, lc[i].uncompressedFile.data)) {
            int64_t off = (int64_t)__CPROVER_POINTER_OFFSET(inside) - (int64_t)__CPROVER_POINTER_OFFSET(lc[i].uncompressedFile.data);
            /* chunk lies inside the container's buffer */
            if (!(off >= 0 && n >= 0 && (uint64_t)(off + n) <= (uint64_t)lc[i].uncompressedFile.size)) vb_addr_bad = 1;
            abs = lc[i].filePosition + off; found = 1;
        }
    }
    if (!found) vb_addr_bad = 1;
    /* chunks arrive in stream order without gap or overlap, and the caller-side pointer matches the position */
    if (abs != vb_next_abs) vb_order_bad = 1;
    if (!(__CPROVER_same_object(user, s0) && (int64_t)__CPROVER_POINTER_OFFSET(user) - (int64_t)__CPROVER_POINTER_OFFSET(s0) == abs - start0)) vb_addr_bad = 1;
    if (abs <= X && X < abs + n) vb_hits++;
    vb_next_abs = abs + n;
}
/* C06, call-site fact of the exclusion lemma: when a reader starts to wait for n bytes the back-pressure threshold admits
 * that many (the writer is held back only at tellp - tellg >= threshold >= n, where the reader's predicate already holds) */
int64_t vb_req_n;
void vb_at_wait(struct UncompressedFile *f, struct vb_cv *cv)
{
    if (cv == &f->tellpChanged)
        __CPROVER_assert(vb_req_n <= f->m_bufferSize, "C06/UncompressedFile/read/the-reader-starts-to-wait-only-with-a-threshold-that-admits-its-request-(n<=bufferSize)");
}
#include "UncompressedFile.c"
#include "AbstractFile.c"
#define HELD (u.m_data.tail - u.m_data.head)
#define P(i) (lc[i].filePosition)
#define S(i) ((int64_t)lc[i].uncompressedFileSize)
#define END(i) (P(i) + S(i))
#define BIG ((int64_t)1 << 60)
#define BIGN ((int64_t)1 << 40)
/* representation invariant over the (at most VB_L) held containers lc[0..k) */
static _Bool RI(struct UncompressedFile *f, int k)
{
    _Bool ok = f->m_data.head == 0 && f->m_data.tail == (size_t)k && k >= 0 && k <= VB_L;
    for (int i = 0; i < VB_L; i++) if (i < k) {
        ok = ok && f->m_data.items[i] == &lc[i];
        ok = ok && lc[i].uncompressedFile.size == (size_t)lc[i].uncompressedFileSize;          /* vector matches declared size */
        ok = ok && P(i) >= 0 && P(i) <= BIG;
        if (i + 1 < k) ok = ok && P(i + 1) == END(i);                                        /* containers are chained */
    }
    ok = ok && f->m_tellg >= 0 && f->m_tellg <= BIG && f->m_tellp >= 0 && f->m_tellp <= BIG && f->m_fileSize >= 0 && f->m_bufferSize >= 0;
    if (k > 0) ok = ok && P(k - 1) <= f->m_tellp && f->m_tellp <= END(k - 1);               /* put position is in (or at the end of) the last container */
    return ok;
}
static int k0;
static void setup(void)
{
    static uint8_t base[NC];
    for (int i = 0; i < NC; i++) lc[i].uncompressedFile.data = &base[i] + 0;   /* distinct 1-byte base objects would be ideal; see below */
}
''' % dict(L=L)


def prelude2(L):
    # distinct base objects per container buffer (malloc'ed 1-byte objects)
    p = prelude(L)
    p = p.replace('''    static uint8_t base[NC];
    for (int i = 0; i < NC; i++) lc[i].uncompressedFile.data = &base[i] + 0;   /* distinct 1-byte base objects would be ideal; see below */''',
                  '''    for (int i = 0; i < NC; i++) { size_t z = lc[i].uncompressedFile.size; lc[i].uncompressedFile.data = (uint8_t *)malloc(z ? z : 1); __CPROVER_assume(lc[i].uncompressedFile.data != 0); }''')
    return p


HEAD = '''void harness(void)
{
    int k; char *s; int64_t n; int64_t off; uint32_t c;
    /* globals are zero-initialised in C: give the state under test and the ghost position ARBITRARY values */
    { struct UncompressedFile t; u = t; } for (int i = 0; i < NC; i++) { struct LogContainer t; lc[i] = t; } { int64_t t; X = t; }
    vb_hits = 0; vb_addr_bad = 0; vb_order_bad = 0; vb_blocked = 0; vb_list_overflow = 0;
    setup();
    for (int i = 0; i < VB_L; i++) u.m_data.items[i] = &lc[i];   /* pointers are ASSIGNED (CBMC resolves dereferences by value sets, not by assumptions) */
    __CPROVER_assume(k >= 0 && k <= VB_L); k0 = k; vb_pool_next = VB_L; vb_exc = 0;
    __CPROVER_assume(RI(&u, k));
    __CPROVER_assume(n >= 0 && n <= BIGN);
    s = (char *)malloc(n ? n : 1); __CPROVER_assume(s != 0); s0 = s;
    o = u; for (int i = 0; i < NC; i++) olc[i] = lc[i];
'''

FRAME_LIST = 'u.m_data.head == o.m_data.head && u.m_data.tail == o.m_data.tail'


def same_containers(k='k'):
    return ' && '.join('(%d >= %s || (lc[%d].filePosition == olc[%d].filePosition && lc[%d].uncompressedFileSize == olc[%d].uncompressedFileSize && lc[%d].uncompressedFile.size == olc[%d].uncompressedFile.size))' % (i, k, i, i, i, i, i, i) for i in range(0, 3))


def A(label, cond):
    return '    __CPROVER_assert(%s, "C15/UncompressedFile/%s");\n' % (cond, label)


def pred_call(name, obj='&u', known=('n', 's')):
    """call of a lifted wait predicate with whatever parameters the extractor gave it (the lambda's captured locals):
       parameters named like a harness variable get that variable, any other gets an arbitrary value of its type"""
    import re
    h = open(os.path.join(core.GEN, 'blf.h')).read()
    m = re.search(r'_Bool %s\(([^)]*)\);' % re.escape(name), h)
    if not m: raise core.Inconclusive('wait predicate %s not found in the extracted header (renamed?)' % name)
    args = []; decls = ''
    for i, prm in enumerate(x.strip() for x in m.group(1).split(',')):
        if i == 0: args.append(obj); continue
        ty, nm = prm.rsplit(' ', 1)
        nm = nm.lstrip('*')
        if nm in known: args.append(nm)
        else:
            decls += '    %s vb_arg_%s_%d;\n' % (ty.strip(), nm, i); args.append('vb_arg_%s_%d' % (nm, i))
    return '%s(%s)' % (name, ', '.join(args)), decls


def jobs(L, timeout):
    out = []
    pre = prelude2(L)
    def mk(name, body, functions, nassert):
        src = pre + HEAD + body + '    __CPROVER_assert(0, "canary");\n}\n'
        out.append(core.Job('C15_UncompressedFile_' + name, src, route='harness', flags=FLAGS, functions=functions,
                            unwind=2 * L + 3, canary_ids=['harness.assertion.%d' % (nassert + 1)], timeout=timeout,
                            bounded='at most %d containers held at once; every size/position/length symbolic' % L))
        if name in ('read', 'write'): out[-1].weight = 10
    # ---------------- read
    b = '''    __CPROVER_assume(X >= 0);
    /* the requested range is backed by held containers: not dropped, and written (the wait predicate of a non-aborted read) */
    int64_t nclamp = (n + u.m_tellg > u.m_fileSize) ? u.m_fileSize - u.m_tellg : n;
    __CPROVER_assume(!u.m_abort);
    __CPROVER_assume(nclamp <= 0 || (k > 0 && P(0) <= u.m_tellg && u.m_tellg + nclamp <= u.m_tellp));
    vb_dir = 1; start0 = u.m_tellg; vb_next_abs = u.m_tellg; vb_hits = 0; vb_req_n = n;
    UncompressedFile_read(&u, s, n);
    int64_t want = nclamp > 0 ? nclamp : 0;
'''
    asserts = [
        ('read/gcount-is-min(n,declared-end-minus-tellg)-a-function-of-counts-only', 'u.m_gcount == want'),
        ('read/tellg-advances-by-gcount', 'u.m_tellg == o.m_tellg + want'),
        ('read/eof-and-fail-iff-the-request-reaches-past-the-declared-end-(a-zero-length-read-keeps-the-state)', 'u.m_rdstate == ((n + o.m_tellg > o.m_fileSize) ? (IOS_eofbit | IOS_failbit) : (n > 0 ? IOS_goodbit : o.m_rdstate))'),
        ('read/every-chunk-addresses-the-container-holding-its-position-and-the-matching-place-in-the-destination', '!vb_addr_bad'),
        ('read/chunks-in-stream-order-without-gap-or-overlap', '!vb_order_bad && vb_next_abs == o.m_tellg + want'),
        ('read/every-delivered-position-copied-exactly-once-none-else', 'vb_hits == ((o.m_tellg <= X && X < o.m_tellg + want) ? 1 : 0)'),
        ('read/frame-containers-put-position-declared-end-untouched', FRAME_LIST + ' && ' + same_containers() + ' && u.m_tellp == o.m_tellp && u.m_fileSize == o.m_fileSize && u.m_abort == o.m_abort && u.m_defaultLogContainerSize == o.m_defaultLogContainerSize'),
        ('read/the-threshold-is-raised-to-the-request-and-never-lowered', 'u.m_bufferSize == (n > o.m_bufferSize ? n : o.m_bufferSize)'),
        ('read/notifies-the-writer-side', 'u.tellgChanged.notified != o.tellgChanged.notified'),
        ('read/preserves-representation-invariant', 'RI(&u, k)'),
    ]
    for l, c_ in asserts: b += A(l, c_)
    mk('read', b, ['UncompressedFile::read', 'UncompressedFile::logContainerContaining'], len(asserts))
    # ---------------- write(bytes)
    b = '''    __CPROVER_assume(X >= 0 && u.m_defaultLogContainerSize >= 1);
    vb_dir = 2; start0 = u.m_tellp; vb_next_abs = u.m_tellp; vb_hits = 0; vb_list_overflow = 0;
    UncompressedFile_write(&u, s, n);
    __CPROVER_assume(!vb_list_overflow);                  /* more than VB_L containers held: outside the stated bound */
    int k1 = (int)(u.m_data.tail - u.m_data.head);
'''
    chain_new = ' && '.join('(%d < k || %d >= k1 || (u.m_data.items[%d] == &lc[VB_L + %d - k] && S_NEW(VB_L + %d - k) && POS_NEW(%d)))' % (i, i, i, i, i, i) for i in range(L))
    b = b.replace('    int k1', '''#define S_NEW(j) (lc[j].uncompressedFileSize == o.m_defaultLogContainerSize && lc[j].uncompressedFile.size == (size_t)o.m_defaultLogContainerSize)
    int k1''')
    asserts = [
        ('write/put-position-advances-by-n', 'u.m_tellp == o.m_tellp + n'),
        ('write/declared-end-shifts-only-when-reached', 'u.m_fileSize == ((o.m_tellp + n >= o.m_fileSize) ? o.m_tellp + n : o.m_fileSize)'),
        ('write/every-chunk-addresses-the-container-holding-its-position-and-the-matching-place-in-the-source', '!vb_addr_bad'),
        ('write/chunks-in-stream-order-without-gap-or-overlap', '!vb_order_bad && vb_next_abs == o.m_tellp + n'),
        ('write/every-written-position-stored-exactly-once-none-else', 'vb_hits == ((o.m_tellp <= X && X < o.m_tellp + n) ? 1 : 0)'),
        ('write/held-containers-keep-position-and-size', 'u.m_data.head == 0 && k1 >= k && ' + same_containers()),
        ('write/read-side-state-untouched', 'u.m_tellg == o.m_tellg && u.m_gcount == o.m_gcount && u.m_rdstate == o.m_rdstate && u.m_bufferSize == o.m_bufferSize && u.m_abort == o.m_abort && u.m_defaultLogContainerSize == o.m_defaultLogContainerSize'),
        ('write/notifies-the-reader-side', 'u.tellpChanged.notified != o.tellpChanged.notified'),
        ('write/no-exception', 'vb_exc == 0'),
    ]
    for l, c_ in asserts: b += A(l, c_)
    # RI after write over the new list: items may include pool containers; restate chain generically
    b += '''    {
        _Bool ok = 1;
        for (int i = 0; i < VB_L; i++) if (i < k1) {
            struct LogContainer *ci = u.m_data.items[i];
            ok = ok && ci->uncompressedFile.size == (size_t)ci->uncompressedFileSize && ci->filePosition >= 0;
            if (i + 1 < k1) ok = ok && u.m_data.items[i + 1]->filePosition == ci->filePosition + (int64_t)ci->uncompressedFileSize;
            if (i >= k) ok = ok && ci->uncompressedFileSize == o.m_defaultLogContainerSize;
        }
        if (k1 > 0) { struct LogContainer *cl = u.m_data.items[k1 - 1]; ok = ok && cl->filePosition <= u.m_tellp && u.m_tellp <= cl->filePosition + (int64_t)cl->uncompressedFileSize; }
        __CPROVER_assert(ok, "C15/UncompressedFile/write/appended-containers-are-chained-with-the-default-size-and-RI-holds");
    }
'''
    mk('write', b, ['UncompressedFile::write(const char*, n)', 'UncompressedFile::logContainerContaining'], len(asserts) + 1)
    # ---------------- write(container)
    b = '''    __CPROVER_assume(k < VB_L && !u.m_abort);
    struct LogContainer *nc = &lc[VB_L];
    __CPROVER_assume(nc->uncompressedFile.size == (size_t)nc->uncompressedFileSize && u.m_tellp + (int64_t)nc->uncompressedFileSize <= BIG);
    /* the put position may lie INSIDE the last held container (bytes were written before): any state within the RI */
    uint32_t ns = nc->uncompressedFileSize;
    _Bool inside = k > 0 && u.m_tellp < END(k - 1);
    int64_t cut = k > 0 ? u.m_tellp - P(k - 1) : 0;
    UncompressedFile_write__std__shared_ptr_LogContainer(&u, nc);
'''
    same_but_last = ' && '.join('(%d >= k - 1 || (lc[%d].filePosition == olc[%d].filePosition && lc[%d].uncompressedFileSize == olc[%d].uncompressedFileSize && lc[%d].uncompressedFile.size == olc[%d].uncompressedFile.size))' % (i, i, i, i, i, i, i) for i in range(0, 3))
    last = ' && '.join('(%d != k - 1 || (lc[%d].filePosition == olc[%d].filePosition && (int64_t)lc[%d].uncompressedFileSize == (inside ? cut : (int64_t)olc[%d].uncompressedFileSize) && lc[%d].uncompressedFile.size == (size_t)lc[%d].uncompressedFileSize))' % (i, i, i, i, i, i, i) for i in range(0, 3))
    asserts = [
        ('writeContainer/appended-at-the-put-position', 'u.m_data.tail == o.m_data.tail + 1 && u.m_data.items[k] == nc && nc->filePosition == o.m_tellp && nc->uncompressedFileSize == ns'),
        ('writeContainer/put-position-advances-by-its-size', 'u.m_tellp == o.m_tellp + (int64_t)ns'),
        ('writeContainer/the-container-holding-the-put-position-is-closed-there-(no-overlap-with-the-appended-one)', last),
        ('writeContainer/containers-stay-chained-without-gap-or-overlap-(representation-invariant)', '(k == 0 || nc->filePosition == END(k - 1)) && nc->uncompressedFile.size == (size_t)nc->uncompressedFileSize && u.m_tellp == nc->filePosition + (int64_t)nc->uncompressedFileSize && u.m_tellg >= 0 && u.m_tellg <= BIG'),
        ('writeContainer/earlier-containers-and-read-side-untouched', 'u.m_data.head == 0 && ' + same_but_last + ' && u.m_tellg == o.m_tellg && u.m_fileSize == o.m_fileSize && u.m_rdstate == o.m_rdstate && u.m_gcount == o.m_gcount && u.m_abort == o.m_abort'),
        ('writeContainer/notifies-the-reader-side', 'u.tellpChanged.notified != o.tellpChanged.notified'),
    ]
    for l, c_ in asserts: b += A(l, c_)
    mk('writeContainer', b, ['UncompressedFile::write(shared_ptr<LogContainer>)'], len(asserts))
    # ---------------- seekg
    b = '''    __CPROVER_assume(off >= -BIG && off <= BIG);
    UncompressedFile_seekg(&u, off, IOS_cur);
'''
    asserts = [
        ('seekg/relative-and-clamped-to-the-declared-end', 'u.m_tellg == ((o.m_tellg + off < o.m_fileSize) ? o.m_tellg + off : o.m_fileSize)'),
        ('seekg/frame', FRAME_LIST + ' && ' + same_containers() + ' && u.m_tellp == o.m_tellp && u.m_fileSize == o.m_fileSize && u.m_rdstate == o.m_rdstate && u.m_gcount == o.m_gcount && u.m_abort == o.m_abort'),
        ('seekg/notifies', 'u.tellgChanged.notified != o.tellgChanged.notified'),
    ]
    for l, c_ in asserts: b += A(l, c_)
    mk('seekg', b, ['UncompressedFile::seekg'], len(asserts))
    # ---------------- dropOldData
    b = '''    UncompressedFile_dropOldData(&u);
    int64_t lim = o.m_tellg < o.m_tellp ? o.m_tellg : o.m_tellp; if (o.m_fileSize < lim) lim = o.m_fileSize;
    /* h = number of leading containers that lie wholly behind tellg, tellp and the declared end */
    unsigned h = 0; _Bool read_ok = 1;
    for (int i = 0; i < VB_L; i++) { if (i < k && h == (unsigned)i && END(i) <= lim) h = i + 1; }
    for (int i = 0; i < VB_L; i++) { if ((size_t)i < u.m_data.head && !(END(i) <= o.m_tellg)) read_ok = 0; }
'''
    asserts = [
        ('dropOldData/drops-exactly-the-leading-containers-that-lie-wholly-behind-tellg-tellp-and-declared-end', 'u.m_data.head == h && u.m_data.tail == o.m_data.tail'),
        ('dropOldData/leaves-no-held-container-that-lies-wholly-behind-(an-object-may-span-several)', 'u.m_data.head == u.m_data.tail || (u.m_data.head < VB_L && END(u.m_data.head) > lim)'),
        ('dropOldData/never-discards-a-byte-that-has-not-been-read', 'read_ok'),
        ('dropOldData/frame', same_containers() + ' && u.m_tellg == o.m_tellg && u.m_tellp == o.m_tellp && u.m_fileSize == o.m_fileSize && u.m_rdstate == o.m_rdstate && u.m_gcount == o.m_gcount && u.m_abort == o.m_abort'),
    ]
    for l, c_ in asserts: b += A(l, c_)
    mk('dropOldData', b, ['UncompressedFile::dropOldData'], len(asserts))
    # ---------------- nextLogContainer
    b = '''    UncompressedFile_nextLogContainer(&u);
    _Bool cut = k > 0 && o.m_tellp > P(k - 1) && o.m_tellp < olc[k - 1].filePosition + (int64_t)olc[k - 1].uncompressedFileSize;
'''
    asserts = [
        ('nextLogContainer/truncates-the-current-container-at-the-put-position', '!cut || (lc[k - 1].uncompressedFileSize == (uint32_t)(o.m_tellp - P(k - 1)) && lc[k - 1].uncompressedFile.size == (size_t)(o.m_tellp - P(k - 1)) && lc[k - 1].filePosition == olc[k - 1].filePosition)'),
        ('nextLogContainer/otherwise-changes-nothing', 'cut || (k == 0) || (lc[k - 1].uncompressedFileSize == olc[k - 1].uncompressedFileSize && lc[k - 1].uncompressedFile.size == olc[k - 1].uncompressedFile.size)'),
        ('nextLogContainer/view-below-the-put-position-and-stream-state-unchanged', FRAME_LIST + ' && u.m_tellg == o.m_tellg && u.m_tellp == o.m_tellp && u.m_fileSize == o.m_fileSize && u.m_rdstate == o.m_rdstate'),
        ('nextLogContainer/preserves-representation-invariant', 'RI(&u, k)'),
    ]
    for l, c_ in asserts: b += A(l, c_)
    mk('nextLogContainer', b, ['UncompressedFile::nextLogContainer'], len(asserts))
    # ---------------- setters / accessors / wait predicates
    b = '''    int64_t v; uint32_t d;
    struct UncompressedFile t = u;
    UncompressedFile_setFileSize(&u, v);
'''
    asserts = [('setFileSize/sets-the-declared-end-wakes-readers-and-nothing-else', 'u.m_fileSize == v && u.tellpChanged.notified != o.tellpChanged.notified && u.m_tellg == o.m_tellg && u.m_tellp == o.m_tellp && u.m_rdstate == o.m_rdstate && ' + FRAME_LIST)]
    b2 = '''    UncompressedFile_setBufferSize(&u, v);
'''
    for l, c_ in asserts: b += A(l, c_)
    b += b2 + A('setBufferSize/sets-the-threshold-only', 'u.m_bufferSize == v && u.m_tellg == o.m_tellg && u.m_tellp == o.m_tellp && ' + FRAME_LIST)
    b += '    UncompressedFile_setDefaultLogContainerSize(&u, d);\n' + A('setDefaultLogContainerSize/sets-the-size-of-future-containers-only', 'u.m_defaultLogContainerSize == d && UncompressedFile_defaultLogContainerSize(&u) == d && ' + same_containers() + ' && ' + FRAME_LIST)
    b += '    u = o;\n'
    b += A('accessors/tellg-is-minus-one-when-failed', 'UncompressedFile_tellg(&u) == ((o.m_rdstate & (IOS_failbit | IOS_badbit)) ? -1 : o.m_tellg)')
    b += A('accessors/tellp-is-minus-one-when-failed', 'UncompressedFile_tellp(&u) == ((o.m_rdstate & (IOS_failbit | IOS_badbit)) ? -1 : o.m_tellp)')
    b += A('accessors/good-eof-gcount-fileSize', 'UncompressedFile_good(&u) == (o.m_rdstate == IOS_goodbit) && UncompressedFile_eof(&u) == ((o.m_rdstate & IOS_eofbit) != 0) && UncompressedFile_gcount(&u) == o.m_gcount && UncompressedFile_fileSize(&u) == o.m_fileSize')
    b += '    UncompressedFile_abort(&u);\n' + A('abort/sets-abort-and-notifies-both-sides', 'u.m_abort && u.tellgChanged.notified != o.tellgChanged.notified && u.tellpChanged.notified != o.tellpChanged.notified && u.m_tellg == o.m_tellg && u.m_tellp == o.m_tellp')
    b += '    u = o;\n'
    pr, d1 = pred_call('UncompressedFile_read__waitpred'); pw, d2 = pred_call('UncompressedFile_write__waitpred'); pc, d3 = pred_call('UncompressedFile_write__std__shared_ptr_LogContainer__waitpred')
    b += d1 + d2 + d3
    b += A('read/wait-predicate-is-abort-or-data-available-or-request-past-declared-end', pr + ' == (u.m_abort || n + u.m_tellg <= u.m_tellp || n + u.m_tellg > u.m_fileSize)')
    b += A('write/wait-predicate-is-abort-or-buffered-bytes-below-the-threshold', pw + ' == (u.m_abort || (u.m_tellp - u.m_tellg) < u.m_bufferSize)')
    b += A('writeContainer/wait-predicate-is-abort-or-buffered-bytes-below-the-threshold', pc + ' == (u.m_abort || (u.m_tellp - u.m_tellg) < u.m_bufferSize)')   # for EVERY state of the RI, the get position beyond the put position included (a relative seekg may move it there)
    b += A('abort-releases-every-waiter', '!u.m_abort || (' + pr + ' && ' + pw + ' && ' + pc + ')')
    mk('setters_accessors_predicates', b, ['UncompressedFile::setFileSize', 'UncompressedFile::setBufferSize', 'UncompressedFile::setDefaultLogContainerSize',
                                          'UncompressedFile::tellg', 'UncompressedFile::tellp', 'UncompressedFile::good', 'UncompressedFile::eof', 'UncompressedFile::gcount',
                                          'UncompressedFile::fileSize', 'UncompressedFile::abort', 'UncompressedFile wait predicates'], 11)
    # ---------------- logContainerContaining
    b = '''    int64_t pos;
    struct LogContainer *r = UncompressedFile_logContainerContaining(&u, pos);
'''
    inrange = ' || '.join('(%d < k && P(%d) <= pos && pos < END(%d) && r == &lc[%d])' % (i, i, i, i) for i in range(L))
    none = ' && '.join('!(%d < k && P(%d) <= pos && pos < END(%d))' % (i, i, i) for i in range(L))
    asserts = [('logContainerContaining/returns-the-container-whose-range-holds-the-position-or-null', '(r == 0 && %s) || %s' % (none, inrange))]
    for l, c_ in asserts: b += A(l, c_)
    mk('logContainerContaining', b, ['UncompressedFile::logContainerContaining'], len(asserts))
    # ---------------- constructor
    src = pre + 'void harness(void)\n{\n    struct UncompressedFile f;\n    UncompressedFile_ctor(&f);\n'
    src += A('ctor/empty-stream-unbounded-good', 'f.m_data.head == f.m_data.tail && f.m_tellg == 0 && f.m_tellp == 0 && f.m_gcount == 0 && !f.m_abort && f.m_rdstate == IOS_goodbit && f.m_fileSize == INT64_MAX && f.m_bufferSize == INT64_MAX && f.m_defaultLogContainerSize == 0x20000u')
    src += '    __CPROVER_assert(0, "canary");\n}\n'
    out.append(core.Job('C15_UncompressedFile_ctor', src, route='harness', flags=FLAGS, functions=['UncompressedFile::UncompressedFile'], canary_ids=['harness.assertion.2'], unwind=2 * L + 3))
    return out


def main():
    meta = core.ensure_extracted()
    info = classinfo.Info(meta)
    L = 2 if core.tier() == 'quick' else 3
    js = jobs(L, 600 if core.tier() == 'quick' else 3000)
    only = [a for a in sys.argv[1:] if not a.startswith('-') and a not in ('quick', 'thorough')]
    if only: js = [j for j in js if any(x in j.name for x in only)]
    rep = core.Report('C15')
    rep.assumptions = ['std::copy moves the bytes of [first,last) to d (assumed dependency contract); its ADDRESSING is checked',
                       'at most %d containers are held at once in the symbolic pre-state (C12 shows real sessions hold a constant number)' % L,
                       'std::list/shared_ptr are modelled by an array of container pointers; reference counting is not modelled',
                       'read: the requested range is backed by held containers (the non-aborted wait predicate plus "not dropped"); positions <= 2^60',
                       'allocation does not fail in these obligations (C10 covers allocation failure)',
                       'mutual exclusion by the mutex every method takes first (syntactic fact recorded by the extractor)']
    results = core.run_jobs(js)
    rep.add_results(results)
    core.triage(rep, results, info)
    if not only: rep.validate_stage_translation()
    return rep.finish('proof', 'goto-cc | cbmc --unwind 2L+3 --unwinding-assertions ' + ' '.join(FLAGS) + ' (assume-pre / assert-post harness per operation over the abstract byte view; std::copy stubbed by an addressing check)', core.TRUSTED_BASE)

if __name__ == '__main__':
    core.main_wrapper(main)
