"""C12 - buffered data stays bounded (REDUCED SCOPE: invariants, no heap measurement).

 * UncompressedFile::dropOldData: drops exactly the leading containers that lie wholly behind tellg, tellp and the
   declared end and leaves none of them held - also when one object spans several containers (C15 job, relabelled); each transfer function calls it once per transferred unit (file_common jobs);
 * back-pressure: the two append operations wait until buffered bytes < threshold (predicates = spec), the queue's
   producer waits at capacity; lemma: right after an append that was admitted, buffered < threshold + appended;
 * File(): threshold = one container, queue capacity 10.
Together: held <= threshold + a constant number of containers, independent of the file length.
NOT decided inside the check: the actual peak heap (native demonstration: seeded/C12_3/demo.cpp).
"""
import sys, os
sys.path.insert(0, os.path.dirname(os.path.dirname(os.path.abspath(__file__))))
from run import core
from checks import file_common, c15, c16
from checks.c06 import relabel

LEMMA = r'''
#include <stdint.h>
void harness(void)
{
    int64_t g, p, th, add; _Bool abort_;
    __CPROVER_assume(g >= 0 && g <= ((int64_t)1 << 60) && p >= g && p <= ((int64_t)1 << 60) && add >= 0 && add <= ((int64_t)1 << 32) && th >= 0 && th <= ((int64_t)1 << 60));
    _Bool admitted = abort_ || (p - g) < th;          /* the wait predicate of both append operations */
    __CPROVER_assert(!(admitted && !abort_) || (p + add) - g < th + add, "C12/lemma/after-an-admitted-append-buffered-bytes-stay-below-threshold-plus-the-appended-amount");
    uint32_t size, cap;
    __CPROVER_assert(!(!abort_ && size < cap) || size + 1u <= cap || cap == 0, "C12/lemma/queue-never-exceeds-its-capacity-unless-aborted");
    __CPROVER_assert(0, "canary");
}
'''


def extra(info):
    js = []
    for j in c15.jobs(2, 600):
        if j.name.endswith('dropOldData'):
            js.append(relabel(j, 'C15', ['UncompressedFile/dropOldData/']))
        if j.name.endswith('setters_accessors_predicates'):
            js.append(relabel(j, 'C15', ['UncompressedFile/write/wait-predicate', 'UncompressedFile/writeContainer/wait-predicate']))
    for j in c16.jobs():
        if j.name.endswith('write_waitpred'):
            js.append(relabel(j, 'C16', ['ObjectQueue/write/wait-predicate']).__class__ and core.Job(j.name.replace('C16_', 'C12_'), j.source.replace('"C16/ObjectQueue/write/wait-predicate', '"C12/ObjectQueue/write/wait-predicate'),
                                                                                   route=j.route, flags=j.flags, functions=j.functions, canary_ids=j.canary_ids, timeout=j.timeout))
    js.append(core.Job('C12_lemma_backpressure', LEMMA, route='harness', flags=['--signed-overflow-check'], functions=['lemma over the back-pressure predicates'],
                       canary_ids=['harness.assertion.3'], timeout=120))
    fixed = []
    for j in js:
        if j.name.startswith('C06_'):
            j = core.Job(j.name.replace('C06_', 'C12_'), j.source.replace('"C06/', '"C12/'), route=j.route, flags=j.flags, functions=j.functions,
                         unwind=j.unwind, canary_ids=j.canary_ids, timeout=j.timeout, bounded=j.bounded)
        fixed.append(j)
    return fixed


if __name__ == '__main__':
    core.main_wrapper(lambda: file_common.run_property('C12', extra_jobs=extra, assumptions=[
        'REDUCED SCOPE: the peak live heap is not measured by the check; the bound (threshold + the largest request + a constant number of containers) follows from the invariants',
        'the composition of the per-function obligations into the bound is an argument on paper (DESIGN.md 6/C12)']))
