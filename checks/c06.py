"""C06 - no API call blocks forever (REDUCED SCOPE: stage-local progress obligations, composition on paper).

The quantifier is over schedules; sequential contracts cannot enumerate them.  Machine-checked are the leaf facts the
argument needs, each on the real wait predicates and call sites:
 P1 every wait predicate equals its specification over the abstract view (C15/C16 jobs, relabelled),
 P2 abort makes every predicate true,
 P3 every mutator notifies the other side (ghost notify counters),
 P4 pairwise exclusion lemmas: queue (capacity >= 1) and stream (request <= threshold), with the call-site facts
    File() sets capacity 10 and threshold = container size, setDefaultLogContainerSize keeps threshold >= container,
 P5 every worker declares end of stream on every exit path, also after an unexpected exception,
 P6 close(): end-of-input declared / abort + flags before the joins, both workers joined.
Composition (unchecked, listed as assumption): all shared state of a channel is accessed under its mutex; the
wait-for graph is a chain, so deadlock needs a 2-cycle on one channel, a lost wake-up or a never-enabled wait.
NOT covered: objects larger than the stream threshold (a single codec read of n > threshold bytes), see DESIGN.md.
"""
import sys, os, re
sys.path.insert(0, os.path.dirname(os.path.dirname(os.path.abspath(__file__))))
from run import core, classinfo
from checks import file_common, c15, c16


def relabel(job, frm, keep):
    """reuse a C15/C16 job for C06: the assertions named in keep are reported under C06"""
    src = job.source
    for k in keep:
        src = src.replace('"%s/%s' % (frm, k), '"C06/%s' % k)
    j = core.Job(job.name.replace(frm + '_', 'C06_'), src, route=job.route, flags=job.flags, functions=job.functions,
                 unwind=job.unwind, canary_ids=job.canary_ids, timeout=job.timeout, loop_contracts=job.loop_contracts,
                 labels=job.labels, bounded=job.bounded)
    return j


LEMMA = r'''
#include <stdint.h>
void harness(void)
{
    /* queue: reader blocked = !(abort || !empty || tellg >= fileSize); writer blocked = !(abort || size < capacity) */
    _Bool abort_; uint32_t size, cap, tellg, fs;
    _Bool rb = !(abort_ || size != 0 || tellg >= fs), wb = !(abort_ || size < cap);
    __CPROVER_assert(!(cap >= 1) || !(rb && wb), "C06/lemma/queue-with-capacity-at-least-1-never-blocks-reader-and-writer-together");
    /* stream: reader(n) blocked = !(abort || n + g <= p || n + g > fsz); writer blocked = !(abort || p - g < threshold) */
    int64_t n, g, p, fsz, th;
    __CPROVER_assume(n >= 0 && n <= ((int64_t)1 << 60) && g >= 0 && g <= ((int64_t)1 << 60) && p >= 0 && p <= ((int64_t)1 << 60));
    _Bool srb = !(abort_ || n + g <= p || n + g > fsz), swb = !(abort_ || p - g < th);
    __CPROVER_assert(!(n <= th) || !(srb && swb), "C06/lemma/stream-request-not-above-the-threshold-never-blocks-reader-and-writer-together");
    __CPROVER_assert(0, "canary");
}
'''


def extra(info):
    L = 2
    js = []
    for j in c15.jobs(L, 600):
        if j.name.endswith('setters_accessors_predicates'):
            js.append(relabel(j, 'C15', ['UncompressedFile/read/wait-predicate', 'UncompressedFile/write/wait-predicate', 'UncompressedFile/writeContainer/wait-predicate',
                                        'UncompressedFile/abort-releases-every-waiter', 'UncompressedFile/abort/sets-abort-and-notifies', 'UncompressedFile/setFileSize/sets-the-declared-end-wakes']))
        if j.name.endswith('seekg') or j.name.endswith('writeContainer'):
            js.append(relabel(j, 'C15', ['UncompressedFile/seekg/notifies', 'UncompressedFile/writeContainer/notifies']))
    for j in c16.jobs():
        if any(j.name.endswith(x) for x in ('read', 'write', 'read_waitpred', 'write_waitpred', 'abort', 'setFileSize')):
            js.append(relabel(j, 'C16', ['ObjectQueue/read/wait-predicate', 'ObjectQueue/read/abort-releases', 'ObjectQueue/write/wait-predicate', 'ObjectQueue/write/abort-releases',
                                        'ObjectQueue/abort/sets-abort-and-notifies', 'ObjectQueue/setFileSize/sets-declared-size-and-wakes', 'ObjectQueue/read/notifies', 'ObjectQueue/write/notifies']))
    js.append(core.Job('C06_lemma_pairwise_exclusion', LEMMA, route='harness', flags=['--signed-overflow-check'], functions=['lemma over the wait predicates'],
                       canary_ids=['harness.assertion.3'], timeout=120))
    # File(): capacity 10, threshold = container size
    fns = file_common.file_functions()
    src = file_common.PRE + file_common.need(fns, 'File_ctor', 'File_defaultLogContainerSize') + '''
void AbstractFile_ctor(struct AbstractFile *a) { }
void FileStatistics_ctor(struct FileStatistics *s) { s->statisticsSize = 144; }
void ObjectQueue_ctor(struct ObjectQueue *q) { q->m_bufferSize = 0xffffffffu; q->m_abort = 0; }
void UncompressedFile_ctor(struct UncompressedFile *u) { u->m_defaultLogContainerSize = 0x20000; u->m_bufferSize = INT64_MAX; u->m_abort = 0; }
void CompressedFile_ctor(struct CompressedFile *c) { c->copen = 0; }
void harness(void)
{
    struct File f; reset_ghost(&f);
    File_ctor(&f);
    __CPROVER_assert(Q.m_bufferSize == 10 && Q.m_bufferSize >= 1, "C06/File/ctor/queue-capacity-is-10-(at-least-1)");
    __CPROVER_assert(U.m_bufferSize == (int64_t)U.m_defaultLogContainerSize, "C06/File/ctor/stream-threshold-equals-the-container-size-the-compressor-asks-for");
    __CPROVER_assert(!C.copen && f.compressionLevel == 1 && f.writeRestorePoints && f.currentObjectCount == 0 && f.currentUncompressedFileSize == 0, "C13/File/ctor/closed-with-documented-defaults");
    __CPROVER_assert(0, "canary");
}
'''
    # std::mutex is not recursive: no stage method takes its mutex while it already holds it (lock tracking of C11, 1 container held)
    from checks import c11
    js += c11.lockset_jobs(info, 1, 'C06')
    js.append(core.Job('C06_File_ctor', src, route='harness', flags=file_common.FLAGS, functions=['File::File'], canary_ids=['harness.assertion.4'], timeout=120))
    return js


if __name__ == '__main__':
    core.main_wrapper(lambda: file_common.run_property('C06', extra_jobs=extra, assumptions=[
        'REDUCED SCOPE: schedules are not explored; the composition of the stage-local obligations into deadlock freedom is an argument on paper (DESIGN.md 6/C06)',
        'all shared state of a channel is accessed under its mutex (syntactic fact recorded by the extractor for every method of UncompressedFile, ObjectQueue, CompressedFile)',
        'a notified waiter re-evaluates its predicate (std::condition_variable contract)',
        'a request larger than the threshold: UncompressedFile::read raises the threshold to the request before it waits (call-site fact of the exclusion lemma, asserted at the wait); the hang it repaired is recorded as fixed in known_findings.json']))
