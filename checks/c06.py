"""C06 - File-level obligations (see checks/file_common.py and DESIGN.md section 6)."""
import sys, os
sys.path.insert(0, os.path.dirname(os.path.dirname(os.path.abspath(__file__))))
from run import core
from checks import file_common
if __name__ == '__main__':
    core.main_wrapper(lambda: file_common.run_property('C06'))
