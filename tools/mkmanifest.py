"""writes MANIFEST.json from the table below (kept in one place so that it stays valid)"""
import json, os
V = os.path.dirname(os.path.dirname(os.path.abspath(__file__)))
TB = "CBMC 6.11 + goto-instrument DFCC; cxx2c extraction (run on every check from /repo's working tree); std container models; assumed contracts of AbstractFile's pure-virtual interface, zlib, fstream, std::thread/mutex/condition_variable"
CHECKS = {
 'C03': dict(level='proof', technique='CBMC code contracts (DFCC): uniform codec contract enforced on every <T>::write, AbstractFile::write/skipp replaced by contracts',
   text="Every codec's write() is enforced against the uniform framing contract (header bytes == headerSize, bytes emitted == objectSize [+ objectSize%4 zero padding for the padding types observed in the reference logs], every length field == payload emitted, reads only inside the caller's containers, frame) for ALL scalar values, stale length fields and payload lengths up to the length field's range; codec bodies are loop free, so the proof is unbounded in payload length.",
   note=TB + "; payload CONTENT is not modelled at this level (count flavour)", ref='6/C03'),
 'C17': dict(level='proof', technique='CBMC: File::createObject against the format table over all 2^32 codes; constructor postconditions; constructor determinism as 2-safety (two nondeterministic memory backgrounds)',
   text="File::createObject is checked against spec/type_table.json (built from two independent places in the repository, re-derived on every run) for the FULL 32-bit code domain in one loop-free query; every class constructor is checked to set a code the factory maps back to that class, the signature, the header version and - by self-composition over two arbitrary memory backgrounds - a determined value for every data member. Loop-free harnesses over full-domain symbolic inputs are complete proofs.",
   note=TB + "; operator new assumed to succeed; 'written under that code / read back as that class' is carried by the round-trip obligations of C01", ref='6/C17'),
 'C01': dict(level='proof', technique='CBMC on the extracted codecs: read(write(x)) == x member-wise for every class, all scalar values symbolic, container sizes and layout selectors enumerated; pipeline stages carried by the contracts of C04/C05/C08/C15/C16',
   text="For every creatable class the extracted read() is proved to invert the extracted write() on a byte-accurate stream: every scalar member symbolic at full width (stale size/length fields included), every container content symbolic, container sizes enumerated over 0..8 (0..24 thorough: every residue mod 4, empty, multi-word) and every documented layout variant; asserted: no exception, stream good, consumed == emitted, every serialised member equal (variant-conditional members under their documented condition). Complete in values, bounded in payload length; the length dimension beyond the bound is unbounded at count level in C03/C10.",
   note=TB + "; bounded stand-in in payload length (stated in the evidence); threads/zlib/file system are outside these obligations", ref='6/C01'),
 'C02': dict(level='proof', technique='CBMC on the extracted codecs over the concrete reference images with a fully symbolic 8-byte overwrite window at every offset; decode guided by the reference decode (same shape)',
   text="Every reference object image found by an independent stdlib-only walker is decoded and re-encoded by the extracted codec inside CBMC; each 8-byte window (a superset of every single-byte and aligned 2/4/8-byte overwrite, all values at once) is made symbolic; within the property's domain (decoded completely, same shape) the re-encoding must have the decoded length and reproduce every byte. Loop bounds are the concrete image lengths, so each query is a complete decision of its window. Quick: up to 2 images per class, large images only over their first 64 bytes; thorough: all 512 images + lobj samples, every window.",
   note=TB + "; one fixture image is inconsistent in itself and listed in spec/undecodable_images.json; bytes the decoder skips are compared unmodified only", ref='6/C02'),
 'C14': dict(level='proof', technique='CBMC 2-safety (self-composition): two objects in independent nondeterministic memory backgrounds, same member values => same bytes; padding zero',
   text="For every class, two objects constructed in two arbitrary memory backgrounds and given the same member values (and, separately, only constructed) are written by the extracted write() to two streams: equal length, equal bytes at an arbitrary index, bytes beyond objectSize zero. AbstractFile::skipp is the real extracted body. Container-cut determinism is carried by C15/C04.",
   note=TB + "; zlib determinism assumed; schedule independence is C07 (not applicable)", ref='6/C14'),
 'C09': dict(level='proof', technique='CBMC loop contract (invariant + decreases) on the signature resynchronisation loop of ObjectHeaderBase::read over an arbitrary byte buffer; ghost position instead of quantifiers',
   text="ObjectHeaderBase::read is proved on its real body with an inductive loop invariant: for an arbitrary buffer of arbitrary length and start position, a successful return means the accepted signature is the FIRST 'LOBJ' at or after the start (no earlier signature skipped by the -3/-2/-1 seek-back), the header fields are the bytes behind it, tellg is 16 past it, and the loop terminates. Unbounded in filler length and content. The unknown-type skip and relative seek are carried by the File-level obligations and C15.",
   note=TB + "; buffers up to the 64 KiB per-object bound of the pointer encoding", ref='6/C09'),
 'C10': dict(level='proof', technique='CBMC on every extracted <T>::read against the hostile-stream contract (arbitrary bytes, arbitrary declared end): memory safety, admissible outcomes, position bounds',
   text="Reduced scope (stated): for every class the decoder is checked against a stream that delivers ARBITRARY bytes with an ARBITRARY declared end: every built-in safety check holds, every stream read has a destination writable for exactly the requested size, the only outcomes are normal return / library exception at eof / std exception from a failed allocation of the declared size, and the position stays between the object start and the declared end. Unbounded in declared sizes. Containment, end-of-stream on every exit and loop progress of the worker functions are File-level obligations.",
   note=TB + "; UB inside zlib/libstdc++/fstream, real threads and the sanitizer observation points are not covered; ObjectHeaderBase::read enters through the contract proved in C09", ref='6/C10'),
 'C15': dict(level='proof', technique='CBMC: every UncompressedFile operation against a contract over the abstract byte view + representation invariant; std::copy stubbed by an addressing check; inductive over histories',
   text="Each operation (read, write bytes, append container, seekg, nextLogContainer, dropOldData, setters, accessors, wait predicates, lookup) is checked from an ARBITRARY pre-state within the representation invariant with every position/size/length symbolic: counts, positions, flags per the iostream law; every chunk copied addresses the container that holds its absolute position and the matching place in the caller's buffer, chunks are in order without gap or overlap, every delivered/stored position is moved exactly once; dropOldData never discards an unread byte; frame. Histories of any length follow by induction. Bounded in the number of containers held at once (2 quick / 3 thorough).",
   note=TB + "; byte move of std::copy assumed, its addressing checked; list/shared_ptr modelled by an array of pointers", ref='6/C15'),
 'C16': dict(level='proof', technique='CBMC: every ObjectQueue function against a contract over the abstract queue view (ghost sequence numbers, element at one arbitrary position); loop contract on the destructor',
   text="read/write/abort/setFileSize/setBufferSize/accessors/wait predicates are loop free and are checked from an arbitrary pre-state: FIFO order and exactly-once at an arbitrary sequence number J, null only when empty and (abort or declared size consumed), producer held back exactly at capacity, abort releases both predicates and notifies both sides, frames. The destructor's loop carries an invariant (one delete per pop) and a variant. Complete for queues and histories of any length; the interleaving half of the quantifier is not explored.",
   note=TB + "; std::queue modelled by sequence numbers; wait returns only when its predicate holds", ref='6/C16'),
}
NA = {
}
def main():
    props = [json.loads(l)['id'] for l in open(os.path.join(V, 'properties.jsonl'))]
    checks = []
    for pid in props:
        if pid not in CHECKS: continue
        c = CHECKS[pid]
        checks.append(dict(property_id=pid, quick_cmd='./check %s quick' % pid, thorough_cmd='./check %s thorough' % pid,
                           evidence_file='evidence/%s.json' % pid, replay_cmd_template='cat {path}',
                           engine='cbmc-contracts',
                           level_claimed=dict(category=c['level'], text=c['text'], design_ref='DESIGN.md section ' + c['ref']),
                           level_note=c['note'], technique=c['technique']))
    na = [dict(property_id=p, reason=NA.get(p, 'check not built yet in this session (see DESIGN.md section 6 for the plan)')) for p in props if p not in CHECKS]
    m = dict(version=1, setup_cmd='python3 -c "import sys; sys.exit(0)"',
             hooks=dict(guard='VECTOR_BLF_VERIF', enable='none: contracts are attached to the mechanically extracted C text under /verif/build/gen; no hook is compiled into /repo',
                        baseline_off_cmd='ctest --test-dir /repo/_build -j8 --timeout 900', source_commits=[], add_only=True),
             engines=[dict(name='cbmc-contracts', path='run/core.py', serves_properties=sorted(CHECKS),
                           kind_free_text='contract-based deductive verification: cxx2c extraction + CBMC 6.11 code contracts (goto-instrument --dfcc), native replay on the real library')],
             checks=checks, not_applicable=na,
             notes='exit 0 held / exit 1 VIOLATION / exit 2 inconclusive (tool limit, extraction rule, timeout) - never reported as a violation. Genuine defects: known_findings.json.')
    json.dump(m, open(os.path.join(V, 'MANIFEST.json'), 'w'), indent=1)
if __name__ == '__main__':
    main()
