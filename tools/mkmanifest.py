"""writes MANIFEST.json from the table below (kept in one place so that it stays valid)"""
import json, os
V = os.path.dirname(os.path.dirname(os.path.abspath(__file__)))
TB = "CBMC 6.11 + goto-instrument DFCC; cxx2c extraction (run on every check from /repo's working tree); std container models; assumed contracts of AbstractFile's pure-virtual interface, zlib, fstream, std::thread/mutex/condition_variable"
CHECKS = {
 'C03': dict(level='proof', technique='CBMC code contracts (DFCC): uniform codec contract enforced on every <T>::write, AbstractFile::write/skipp replaced by contracts',
   text="Every codec's write() is enforced against the uniform framing contract (header bytes == headerSize, bytes emitted == objectSize [+ objectSize%4 zero padding for the padding types observed in the reference logs], every length field == payload emitted, reads only inside the caller's containers, frame) for ALL scalar values, stale length fields and payload lengths up to the length field's range; codec bodies are loop free, so the proof is unbounded in payload length.",
   note=TB + "; payload CONTENT is not modelled at this level (count flavour)", ref='6/C03'),
 'C17': dict(level='proof', technique='CBMC: File::createObject against the format table over all 2^32 codes; constructor postconditions; constructor determinism as 2-safety (two nondeterministic memory backgrounds)',
   text="File::createObject is checked against spec/type_table.json (built from two independent places in the repository, re-derived on every run) for the FULL 32-bit code domain in one loop-free query; every class constructor is checked to set a code the factory maps back to that class, the signature, the header version and - by self-composition over two arbitrary memory backgrounds - a determined value for every data member. Loop-free harnesses over full-domain symbolic inputs are complete proofs.",
   note=TB + "; operator new assumed to succeed; 'written under that code / read back as that class' is carried by the round-trip obligations of C01", ref='6/C17'),
}
NA = {
}
def main():
    props = [json.loads(l)['id'] for l in open(os.path.join(V, 'properties.jsonl'))]
    checks = []
    for pid in props:
        if pid not in CHECKS: continue
        c = CHECKS[pid]
        checks.append(dict(property_id=pid, quick_cmd='./check %s quick' % pid, thorough_cmd='./check %s thorough' % pid,
                           evidence_file='evidence/%s.json' % pid, replay_cmd_template='cat {path}',
                           engine='cbmc-contracts',
                           level_claimed=dict(category=c['level'], text=c['text'], design_ref='DESIGN.md section ' + c['ref']),
                           level_note=c['note'], technique=c['technique']))
    na = [dict(property_id=p, reason=NA.get(p, 'check not built yet in this session (see DESIGN.md section 6 for the plan)')) for p in props if p not in CHECKS]
    m = dict(version=1, setup_cmd='python3 -c "import sys; sys.exit(0)"',
             hooks=dict(guard='VECTOR_BLF_VERIF', enable='none: contracts are attached to the mechanically extracted C text under /verif/build/gen; no hook is compiled into /repo',
                        baseline_off_cmd='ctest --test-dir /repo/_build -j8 --timeout 900', source_commits=[], add_only=True),
             engines=[dict(name='cbmc-contracts', path='run/core.py', serves_properties=sorted(CHECKS),
                           kind_free_text='contract-based deductive verification: cxx2c extraction + CBMC 6.11 code contracts (goto-instrument --dfcc), native replay on the real library')],
             checks=checks, not_applicable=na,
             notes='exit 0 held / exit 1 VIOLATION / exit 2 inconclusive (tool limit, extraction rule, timeout) - never reported as a violation. Genuine defects: known_findings.json.')
    json.dump(m, open(os.path.join(V, 'MANIFEST.json'), 'w'), indent=1)
if __name__ == '__main__':
    main()
