#!/bin/bash
# usage: confirm_seed.sh <PROP> <k> <worktree> <outdir> : confirms compile + tests + demo fail/pass for one seeded change
P=$1; K=$2; WT=$3; OUT=$4
B=$WT/_b
LOG=$OUT/$K/confirm.log
: > $LOG
cd $WT && git checkout -q -- . || exit 9
[ -d $B ] || cmake -G Ninja -S $WT -B $B -DOPTION_RUN_DOXYGEN=OFF -DOPTION_BUILD_TESTS=ON -DCMAKE_BUILD_TYPE=Release >> $LOG 2>&1
cmake --build $B -j4 >> $LOG 2>&1 || { echo "$P/$K clean build failed"; exit 9; }
g++ -std=c++11 -I$WT/src -I$B/src $OUT/$K/demo.cpp -o $OUT/$K/demo -L$B/src/Vector/BLF -lVector_BLF -Wl,-rpath,$B/src/Vector/BLF -lpthread -lz >> $LOG 2>&1 || { echo "$P/$K demo compile failed"; exit 9; }
$OUT/$K/demo >> $LOG 2>&1; c0=$?
git apply $OUT/$K/patch.diff || { echo "$P/$K patch does not apply"; exit 9; }
cmake --build $B -j4 >> $LOG 2>&1 || { echo "$P/$K patched build failed"; git checkout -q -- .; exit 9; }
timeout 120 $OUT/$K/demo >> $LOG 2>&1; c1=$?
ctest --test-dir $B -j4 --timeout 120 -E '^(File|ObjectHeaderBase)$' >> $LOG 2>&1; t=$?
git checkout -q -- .
echo "$P/$K demo_clean=$c0 demo_patched=$c1 ctest=$t"
