#!/bin/bash
# like confirm_seed.sh, for demos that need the sanitized library (_bs) plus the plain test build (_b)
P=$1; K=$2; WT=$3; OUT=$4
B=$WT/_b; BS=$WT/_bs
LOG=$OUT/$K/confirm.log; : > $LOG
cd $WT && git checkout -q -- . || exit 9
[ -d $BS ] || cmake -G Ninja -S $WT -B $BS -DOPTION_RUN_DOXYGEN=OFF -DOPTION_BUILD_TESTS=OFF -DCMAKE_BUILD_TYPE=Release "-DCMAKE_CXX_FLAGS=-O1 -g -fsanitize=address,undefined -fno-omit-frame-pointer" "-DCMAKE_SHARED_LINKER_FLAGS=-fsanitize=address,undefined" >> $LOG 2>&1
[ -d $B ] || cmake -G Ninja -S $WT -B $B -DOPTION_RUN_DOXYGEN=OFF -DOPTION_BUILD_TESTS=ON -DCMAKE_BUILD_TYPE=Release >> $LOG 2>&1
cmake --build $BS -j4 >> $LOG 2>&1 || { echo "$P/$K clean san build failed"; exit 9; }
g++ -std=c++11 -g -fsanitize=address,undefined -I$WT/src -I$BS/src $OUT/$K/demo.cpp -o $OUT/$K/demo -L$BS/src/Vector/BLF -lVector_BLF -Wl,-rpath,$BS/src/Vector/BLF -lpthread >> $LOG 2>&1 || { echo "$P/$K demo compile failed"; exit 9; }
(cd $OUT/$K && ASAN_OPTIONS=detect_leaks=0 timeout 60 ./demo >> $LOG 2>&1); c0=$?
git apply $OUT/$K/patch.diff || { echo "$P/$K patch does not apply"; exit 9; }
cmake --build $BS -j4 >> $LOG 2>&1 || { echo "$P/$K patched build failed"; git checkout -q -- .; exit 9; }
(cd $OUT/$K && ASAN_OPTIONS=detect_leaks=0 timeout 60 ./demo >> $LOG 2>&1); c1=$?
cmake --build $B -j4 >> $LOG 2>&1
ctest --test-dir $B -j4 --timeout 120 -E '^(File|ObjectHeaderBase)$' >> $LOG 2>&1; t=$?
git checkout -q -- .
echo "$P/$K demo_clean=$c0 demo_patched=$c1 ctest=$t"
