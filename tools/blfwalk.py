"""Independent, stdlib-only walker for BLF files (struct + zlib): used as oracle
(padding types observed in the reference logs, object images for C02, file layout for C04/C05).
Written from the format description in the property statements, not from the library's sources."""
import struct, zlib, sys, os, glob, json

def read_file(path):
    b = open(path, 'rb').read()
    if b[:4] != b'LOGG': raise ValueError('no LOGG signature')
    hdr = dict(zip(('sig', 'statisticsSize', 'apiNumber', 'applicationId', 'compressionLevel', 'applicationMajor',
                    'applicationMinor', 'fileSize', 'uncompressedFileSize', 'objectCount', 'applicationBuild'),
                   struct.unpack_from('<4sIIBBBBQQII', b, 0)))
    hdr['restorePointsOffset'] = struct.unpack_from('<Q', b, 72)[0]
    pos = hdr['statisticsSize']
    containers = []
    while pos + 32 <= len(b):
        if b[pos:pos + 4] != b'LOBJ':
            raise ValueError('no LOBJ at %d' % pos)
        hs, hv, osz, oty = struct.unpack_from('<HHII', b, pos + 4)
        if oty != 10: raise ValueError('top-level object type %d at %d' % (oty, pos))
        method, r1, r2, usz, r3 = struct.unpack_from('<HHIII', b, pos + 16)
        payload = b[pos + 32: pos + osz]
        if len(payload) != osz - 32: raise ValueError('truncated container at %d' % pos)
        if method == 2:
            data = zlib.decompress(payload)
        elif method == 0:
            data = payload
        else:
            raise ValueError('compression method %d' % method)
        containers.append(dict(pos=pos, headerSize=hs, headerVersion=hv, objectSize=osz, method=method,
                               uncompressedFileSize=usz, data=data, payload=payload, reserved=(r1, r2, r3)))
        pos += osz + (osz % 4)
    return hdr, containers, b

def objects(stream):
    """-> list of dict(pos, headerSize, headerVersion, objectSize, objectType, image, padded)"""
    out = []
    pos = 0
    n = len(stream)
    while pos + 16 <= n:
        if stream[pos:pos + 4] != b'LOBJ':
            nxt = stream.find(b'LOBJ', pos)
            if nxt < 0: break
            pos = nxt; continue
        hs, hv, osz, oty = struct.unpack_from('<HHII', stream, pos + 4)
        if osz < 16 or pos + osz > n: break
        end = pos + osz
        padded = None
        if osz % 4:
            if stream[end:end + 4] == b'LOBJ': padded = False
            elif stream[end + osz % 4: end + osz % 4 + 4] == b'LOBJ': padded = True
            elif end + osz % 4 == n and end != n: padded = True
            elif end == n: padded = None
        out.append(dict(pos=pos, headerSize=hs, headerVersion=hv, objectSize=osz, objectType=oty,
                        image=stream[pos:end], padded=padded,
                        pad_bytes=stream[end:end + osz % 4] if padded else b''))
        pos = end + (osz % 4 if padded else 0)
    return out

def reference_files(repo):
    base = os.path.join(repo, 'src/Vector/BLF/tests/unittests')
    return sorted(glob.glob(os.path.join(base, 'events_from_binlog', '*.blf')) +
                  glob.glob(os.path.join(base, 'events_from_converter', '*.blf')))

if __name__ == '__main__':
    repo = sys.argv[1] if len(sys.argv) > 1 else '/repo'
    pad = {}; nobj = 0
    for f in reference_files(repo):
        try:
            hdr, cs, raw = read_file(f)
        except Exception as e:
            print('skip', f, e); continue
        stream = b''.join(c['data'] for c in cs)
        for o in objects(stream):
            nobj += 1
            if o['padded'] is not None:
                pad.setdefault(o['objectType'], set()).add(o['padded'])
    print(nobj, 'objects')
    print(sorted((k, sorted(v)) for k, v in pad.items()))
