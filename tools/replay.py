#!/usr/bin/env python3
"""usage: tools/replay.py <replay file>
Shows the failed obligation, the verifier's counterexample inputs and - where the replay file carries a native
script - runs that script again on the REAL library built from /repo's current working tree (ASan+UBSan)."""
import sys, os, json
sys.path.insert(0, os.path.dirname(os.path.dirname(os.path.abspath(__file__))))
from run import core, classinfo

def main():
    d = json.load(open(sys.argv[1]))
    print('property   :', d.get('property'))
    print('obligation :', d.get('obligation'), '[%s]' % d.get('cbmc_property', ''))
    print('pipeline   :'); [print('   ', c) for c in d.get('pipeline', [])]
    print('verifier   :'); print('   ', (d.get('verifier_output_failed_lines') or '').replace('\n', '\n    '))
    ins = d.get('counterexample_inputs') or {}
    print('inputs     :', json.dumps(ins)[:2000])
    if d.get('observation'): print('observation:', d['observation'])
    if d.get('native_script'):
        from harness import replay_gen
        info = classinfo.Info(core.ensure_extracted())
        res, err = replay_gen.run_driver(info, '\n'.join(d['native_script']) + '\n')
        print('native replay on the real library now:', json.dumps(res)[:1500])
        print('recorded at check time               :', json.dumps(d.get('native_replay'))[:600])
    else:
        print('no native observation point for this obligation (no-failing-input-found): the harness is', d.get('harness'))

if __name__ == '__main__':
    main()
