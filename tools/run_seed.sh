#!/bin/bash
# usage: run_seed.sh <seed dir name> <PROP> [args...] : apply the seeded change to /repo, run the check, undo
S=$1; P=$2; shift 2
cd /repo && git apply /verif/seeded/$S/patch.diff || exit 9
cd /verif && ./check $P "$@" > /tmp/seedrun_${S}_$P.txt 2>&1; rc=$?
cd /repo && git checkout -- .
# the evidence file of this run describes the seeded tree: put the committed one (unchanged tree) back
cd /verif && git checkout -- evidence/$P.json 2>/dev/null
echo "$S $P exit=$rc $(grep -c '^VIOLATION' /tmp/seedrun_${S}_$P.txt) violations; $(grep '^VIOLATION' /tmp/seedrun_${S}_$P.txt | head -3 | tr '\n' ' ')"
grep -A1 '^VIOLATION' /tmp/seedrun_${S}_$P.txt | grep 'failed obligation' | head -4
grep '^INCONCLUSIVE' /tmp/seedrun_${S}_$P.txt | head -3
