/* AbstractFile, SEGMENT flavour (round-trip obligations): the stream is the sequence of write() calls,
 * each stored in its own fixed array, so that no byte is addressed through a symbolic position.
 * A read must consume exactly the bytes of the next pending write ("field-by-field read/write in identical
 * order and width" - the mechanism the round-trip properties name); a read that does not line up with a write
 * boundary fails the obligation 'aligned' instead of being modelled.  Positions (tellg/tellp/fileSize) are
 * exact byte counts with the iostream-like semantics C15 proves of UncompressedFile. */
#ifndef AF_SEG_H
#define AF_SEG_H
#include <stdint.h>
#include <string.h>
#ifndef VB_SEG_MAX
#define VB_SEG_MAX 96
#endif
#ifndef VB_SEG_BYTES
#define VB_SEG_BYTES 64
#endif
#define VB_GHOST_AbstractFile \
    int nseg; int rseg; int misaligned; \
    int64_t g; int64_t p; int64_t fileSize; int rdstate; int64_t gcount; int64_t hdr_end;
/* one stream per harness: segment storage is global, indexed by concrete write ordinal */
uint8_t vb_segdata[VB_SEG_MAX][VB_SEG_BYTES];
int64_t vb_seglen[VB_SEG_MAX];
#define VB_MARK_HDR_END(os) ((os)->hdr_end = (os)->p)
#endif
