/* AbstractFile, BYTES flavour: an executable flat-buffer stream with the iostream-like
 * semantics that C15 proves of UncompressedFile (short read at the declared end sets
 * eof|fail, relative seek clamped to the declared end, tell = -1 when failed).
 * Copies of compile-time-constant length use memcpy; copies of symbolic length use a
 * loop that the harness unwinds to the stated payload bound (bounded stand-in).
 * The same file is compiled natively for translation validation. */
#ifndef AF_BYTES_H
#define AF_BYTES_H
#include <stdint.h>
#include <string.h>
#define VB_GHOST_AbstractFile \
    uint8_t *buf; int64_t cap; int64_t g; int64_t p; int64_t fileSize; int rdstate; int64_t gcount; int64_t hdr_end; \
    int64_t ovl_off; int64_t ovl_end; uint64_t ovl_val; int nskip; int64_t skip_lo[4]; int64_t skip_hi[4];   /* optional 8-byte overlay window on the read side (C02) */
#define VB_MARK_HDR_END(os) ((os)->hdr_end = (os)->p)
#ifdef VBLF_CPROVER
#define VB_AF_CHECK(c, msg) __CPROVER_assert(c, msg)
#else
#include <assert.h>
#define VB_AF_CHECK(c, msg) assert((c) && msg)
#endif
#endif
