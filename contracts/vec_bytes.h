/* std::vector / std::string, BYTES model: fixed capacity VB_NMAX elements (the payload bound of the
 * harness), contents exact: resize preserves the prefix and value-initialises new elements.
 * A request above the bound raises the std exception (it stands for length_error/bad_alloc), so an
 * obligation demanding 'no exception' fails rather than being assumed away. */
#ifndef VEC_BYTES_H
#define VEC_BYTES_H
#ifndef VB_NMAX
#define VB_NMAX 8
#endif
#define VB_DEFINE_VEC(NAME, T) \
    void NAME##_init(struct NAME *v) { v->data = 0; v->size = 0; } \
    void NAME##_free(struct NAME *v) { if (v->data) free(v->data); v->data = 0; v->size = 0; } \
    void NAME##_resize(struct NAME *v, size_t n) { \
        VB_REF_APPLY(n, size_t); \
        if (n > VB_NMAX) { vb_exc = VB_EXC_STD; return; } \
        if (v->data == 0) { v->data = (T *)malloc(VB_NMAX * sizeof(T)); __CPROVER_assume(v->data != 0); v->size = 0; } \
        for (size_t i = v->size; i < n; i++) v->data[i] = 0; \
        v->size = n; } \
    void NAME##_assign(struct NAME *dst, const struct NAME *src) { \
        if (dst == src) return; \
        NAME##_resize(dst, src->size); if (vb_exc) return; \
        for (size_t i = 0; i < src->size; i++) dst->data[i] = src->data[i]; }
#include "vb_vecs.inc"
#endif
