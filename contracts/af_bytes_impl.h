/* included after blf.h: definitions of the BYTES flavour stream operations */
#ifndef AF_BYTES_IMPL_H
#define AF_BYTES_IMPL_H
static void vb_af_write_const(struct AbstractFile *f, const char *s, int64_t n)
{
    VB_AF_CHECK(n >= 0 && f->p >= 0 && f->p + n <= f->cap, "harness bound: stream capacity");
    for (int64_t i = 0; i < n; i++) f->buf[f->p + i] = (uint8_t)s[i];
    f->p += n;
}
static void vb_af_write_sym(struct AbstractFile *f, const char *s, int64_t n)
{
    VB_AF_CHECK(n >= 0 && f->p >= 0 && f->p + n <= f->cap, "harness bound: stream capacity");
    for (int64_t i = 0; i < n; i++) f->buf[f->p + i] = (uint8_t)s[i];
    f->p += n;
}
static int64_t vb_af_read_prep(struct AbstractFile *f, int64_t n)
{
    if (n + f->g > f->fileSize) { n = f->fileSize - f->g; f->rdstate = IOS_eofbit | IOS_failbit; }
    else f->rdstate = IOS_goodbit;
    if (n < 0) n = 0;
    return n;
}
static void vb_af_read_const(struct AbstractFile *f, char *s, int64_t n)
{
    n = vb_af_read_prep(f, n);
    for (int64_t i = 0; i < n; i++) s[i] = (char)f->buf[f->g + i];
    f->g += n; f->gcount = n;
}
static void vb_af_read_sym(struct AbstractFile *f, char *s, int64_t n)
{
    n = vb_af_read_prep(f, n);
    for (int64_t i = 0; i < n; i++) s[i] = (char)f->buf[f->g + i];
    f->g += n; f->gcount = n;
}
static void vb_af_seekg(struct AbstractFile *f, int64_t off, int way)
{
    int64_t t = f->g + off;
    f->g = t < f->fileSize ? t : f->fileSize;
}
static int64_t vb_af_tellg(struct AbstractFile *f) { return (f->rdstate & (IOS_failbit | IOS_badbit)) ? -1 : f->g; }
static int64_t vb_af_tellp(struct AbstractFile *f) { return (f->rdstate & (IOS_failbit | IOS_badbit)) ? -1 : f->p; }
#ifdef VBLF_CPROVER
#define AbstractFile_v_write(f, s, n) (__builtin_constant_p(n) ? vb_af_write_const(f, s, n) : vb_af_write_sym(f, s, n))
#define AbstractFile_v_read(f, s, n) (__builtin_constant_p(n) ? vb_af_read_const(f, s, n) : vb_af_read_sym(f, s, n))
#else
#define AbstractFile_v_write(f, s, n) vb_af_write_sym(f, s, n)
#define AbstractFile_v_read(f, s, n) vb_af_read_sym(f, s, n)
#endif
#define AbstractFile_v_seekg(f, off, way) vb_af_seekg(f, off, way)
#define AbstractFile_v_tellg(f) vb_af_tellg(f)
#define AbstractFile_v_tellp(f) vb_af_tellp(f)
#define AbstractFile_v_good(f) ((f)->rdstate == IOS_goodbit)
#define AbstractFile_v_eof(f) (((f)->rdstate & IOS_eofbit) != 0)
#define AbstractFile_v_gcount(f) ((f)->gcount)
#endif
