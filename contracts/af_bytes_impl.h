/* included after blf.h: definitions of the BYTES flavour stream operations */
#ifndef AF_BYTES_IMPL_H
#define AF_BYTES_IMPL_H
static void vb_af_write_const(struct AbstractFile *f, const char *s, int64_t n)
{
    VB_AF_CHECK(n >= 0 && f->p >= 0 && f->p + n <= f->cap, "C01/stream/write-length-within-the-capacity-sized-for-the-object");
    if (!(n >= 0 && f->p >= 0 && f->p + n <= f->cap)) return;
    if (n > 16) memcpy(f->buf + f->p, s, (size_t)n);          /* bulk members (arrays): one array operation */
    else for (int64_t i = 0; i < n; i++) f->buf[f->p + i] = (uint8_t)s[i];   /* scalars: byte-wise, so that constants fold */
    f->p += n;
}
static void vb_af_write_sym(struct AbstractFile *f, const char *s, int64_t n)
{
    VB_AF_CHECK(n >= 0 && f->p >= 0 && f->p + n <= f->cap, "C01/stream/write-length-within-the-capacity-sized-for-the-object");
    if (!(n >= 0 && f->p >= 0 && f->p + n <= f->cap)) return;
    for (int64_t i = 0; i < n; i++) f->buf[f->p + i] = (uint8_t)s[i];
    f->p += n;
}
#ifdef VB_OVERLAY
#define VB_AF_BYTE(f, idx) (((idx) >= (f)->ovl_off && (idx) < (f)->ovl_end) ? (uint8_t)((f)->ovl_val >> (8 * ((idx) - (f)->ovl_off))) : (f)->buf[idx])
#else
#define VB_AF_BYTE(f, idx) ((f)->buf[idx])
#endif
#define VB_AF_SKIPPED(f, idx) (((f)->nskip > 0 && (idx) >= (f)->skip_lo[0] && (idx) < (f)->skip_hi[0]) || ((f)->nskip > 1 && (idx) >= (f)->skip_lo[1] && (idx) < (f)->skip_hi[1]) || \
    ((f)->nskip > 2 && (idx) >= (f)->skip_lo[2] && (idx) < (f)->skip_hi[2]) || ((f)->nskip > 3 && (idx) >= (f)->skip_lo[3] && (idx) < (f)->skip_hi[3]))
static int64_t vb_af_read_prep(struct AbstractFile *f, int64_t n)
{
    if (n + f->g > f->fileSize) { n = f->fileSize - f->g; f->rdstate = IOS_eofbit | IOS_failbit; }
    else if (n > 0) f->rdstate = IOS_goodbit;          /* a zero-length read leaves the state as it is */
    if (n < 0) n = 0;
    return n;
}
static void vb_af_read_const(struct AbstractFile *f, char *s, int64_t n)
{
    n = vb_af_read_prep(f, n);
#ifdef VB_OVERLAY
    if (n > 16 && (f->ovl_end <= f->g || f->ovl_off >= f->g + n)) memcpy(s, f->buf + f->g, (size_t)n);
    else
#else
    if (n > 16) memcpy(s, f->buf + f->g, (size_t)n);
    else
#endif
    for (int64_t i = 0; i < n; i++) s[i] = (char)VB_AF_BYTE(f, f->g + i);
    f->g += n; f->gcount = n;
}
#ifdef VB_REF_GUIDED
/* C02: the decode of a derived image must make the same sequence of reads / resizes / seeks as the decode of the
 * reference image ("same shape"); the first deviation ends the decode (outside the property's domain).  Inside the
 * domain every length is then the CONCRETE value recorded from the reference decode. */
#define VB_REF_MAX 256
int64_t vb_ref_val[VB_REF_MAX]; int vb_ref_n; int vb_ref_k; int vb_ref_mode; /* 0 off, 1 record, 2 replay */ int vb_ref_diverged;
/* macro, not a function: the surviving path must carry the recorded CONCRETE value, not a merged one */
#define VB_REF_APPLY(n, T) do { \
    if (vb_ref_mode == 1) { __CPROVER_assert(vb_ref_n < VB_REF_MAX, "harness bound: reference call log"); vb_ref_val[vb_ref_n++] = (int64_t)(n); } \
    else if (vb_ref_mode == 2) { \
        int vb_k = vb_ref_k; vb_ref_k = vb_k + 1;   /* advanced on every path, so that it stays concrete after paths merge */ \
        if (vb_k >= vb_ref_n || (int64_t)(n) != vb_ref_val[vb_k]) { vb_ref_diverged = 1; vb_exc = VB_EXC_STD; return; } \
        (n) = (T)vb_ref_val[vb_k]; } } while (0)
#else
#define VB_REF_APPLY(n, T) do { } while (0)
#endif
static void vb_af_read_sym(struct AbstractFile *f, char *s, int64_t n)
{
    VB_REF_APPLY(n, int64_t);
    n = vb_af_read_prep(f, n);
    for (int64_t i = 0; i < n; i++) s[i] = (char)VB_AF_BYTE(f, f->g + i);
    f->g += n; f->gcount = n;
}
static void vb_af_seekg(struct AbstractFile *f, int64_t off, int way)
{
    VB_REF_APPLY(off, int64_t);
    int64_t t = f->g + off;
    int64_t ng = t < f->fileSize ? t : f->fileSize;
#ifdef VB_OVERLAY
    /* bytes the decoder skips (alignment padding, unused union parts) are not fields: remembered so that the
       re-encoding is not compared against an overwrite of them (the encoder writes zeros there by design, C14) */
    if (ng > f->g && f->nskip < 4) { f->skip_lo[f->nskip] = f->g; f->skip_hi[f->nskip] = ng; f->nskip++; }
#endif
    f->g = ng;
}
static int64_t vb_af_tellg(struct AbstractFile *f) { return (f->rdstate & (IOS_failbit | IOS_badbit)) ? -1 : f->g; }
static int64_t vb_af_tellp(struct AbstractFile *f) { return (f->rdstate & (IOS_failbit | IOS_badbit)) ? -1 : f->p; }
#ifdef VBLF_CPROVER
#define AbstractFile_v_write(f, s, n) (__builtin_constant_p(n) ? vb_af_write_const(f, s, n) : vb_af_write_sym(f, s, n))
#define AbstractFile_v_read(f, s, n) (__builtin_constant_p(n) ? vb_af_read_const(f, s, n) : vb_af_read_sym(f, s, n))
#else
#define AbstractFile_v_write(f, s, n) vb_af_write_sym(f, s, n)
#define AbstractFile_v_read(f, s, n) vb_af_read_sym(f, s, n)
#endif
#define AbstractFile_v_seekg(f, off, way) vb_af_seekg(f, off, way)
#define AbstractFile_v_tellg(f) vb_af_tellg(f)
#define AbstractFile_v_tellp(f) vb_af_tellp(f)
#define AbstractFile_v_good(f) ((f)->rdstate == IOS_goodbit)
#define AbstractFile_v_eof(f) (((f)->rdstate & IOS_eofbit) != 0)
#define AbstractFile_v_gcount(f) ((f)->gcount)
#endif
