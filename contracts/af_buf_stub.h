/* AbstractFile read side over an ARBITRARY byte buffer of symbolic length (harness route, used with loop
 * contracts): content-accurate, iostream law as proved of UncompressedFile in C15. */
#ifndef AF_BUF_STUB_H
#define AF_BUF_STUB_H
static void vb_buf_read(struct AbstractFile *p, char *s, int64_t n)
{
    __CPROVER_assert(n >= 0 && n <= 8 && (n == 0 || __CPROVER_w_ok(s, n)), "AbstractFile::read precondition: destination writable for n bytes");
    int64_t m = n;
    if (p->g + n > p->fileSize) { m = p->fileSize - p->g; p->rdstate = IOS_eofbit | IOS_failbit; }
    else if (n > 0) p->rdstate = IOS_goodbit;
    if (m > 0) s[0] = (char)p->buf[p->g];
    if (m > 1) s[1] = (char)p->buf[p->g + 1];
    if (m > 2) s[2] = (char)p->buf[p->g + 2];
    if (m > 3) s[3] = (char)p->buf[p->g + 3];
    if (m > 4) s[4] = (char)p->buf[p->g + 4];
    if (m > 5) s[5] = (char)p->buf[p->g + 5];
    if (m > 6) s[6] = (char)p->buf[p->g + 6];
    if (m > 7) s[7] = (char)p->buf[p->g + 7];
    p->gcount = m;
    if (m == n) p->g = p->g + n; else p->g = p->fileSize;
}
static void vb_buf_seekg(struct AbstractFile *p, int64_t off, int way)
{
    int64_t t = p->g + off;
    p->g = t < p->fileSize ? t : p->fileSize;
}
#define AbstractFile_v_read(p, s, n) vb_buf_read(p, s, n)
#define AbstractFile_v_seekg(p, off, way) vb_buf_seekg(p, off, way)
#define AbstractFile_v_eof(p) (((p)->rdstate & IOS_eofbit) != 0)
#define AbstractFile_v_good(p) ((p)->rdstate == IOS_goodbit)
#endif
