/* AbstractFile, HOSTILE flavour as executable stubs (harness route): same clauses as af_hostile.h, with the
 * precondition asserted and the destination havocked by __CPROVER_havoc_slice.  Used where DFCC's write-set
 * instrumentation made the same obligations too slow (C10 codec reads: ~45 replaced calls per class). */
#ifndef AF_HOSTILE_STUB_H
#define AF_HOSTILE_STUB_H
static void vb_hostile_read(struct AbstractFile *p, char *s, int64_t n)
{
    __CPROVER_assert(n >= 0 && (n == 0 || __CPROVER_w_ok(s, n)), "AbstractFile::read precondition: destination writable for n bytes");
    __CPROVER_assert(p->p <= p->g && p->g <= p->fileSize, "stream invariant object start <= tellg <= declared end");
    __CPROVER_assume(p->p <= p->g && p->g <= p->fileSize);   /* just asserted: cuts the arithmetic chain for the solver */
    if (!(n >= 0 && (n == 0 || __CPROVER_w_ok(s, n)))) { __CPROVER_assume(0); }
    if (n > 0) __CPROVER_havoc_slice(s, (size_t)n);
    p->asked += (uint64_t)n;      /* ghost: bytes the decoder asked for or skipped since the object's start (no wrap: n < 2^63, few calls) */
    /* g is set directly (not g += fileSize - g): add/subtract cancellation is what SAT solvers cannot see */
    if (p->g + n > p->fileSize) { p->gcount = p->fileSize - p->g; p->rdstate = IOS_eofbit | IOS_failbit; p->g = p->fileSize; p->hdr_end = 1; /* ghost: a read was cut short */ }
    else { p->gcount = n; if (n > 0) p->rdstate = IOS_goodbit; p->g = p->g + n; }      /* a zero-length read leaves the state as it is */
    __CPROVER_assert(p->p <= p->g && p->g <= p->fileSize, "stream invariant object start <= tellg <= declared end");
    __CPROVER_assume(p->p <= p->g && p->g <= p->fileSize);
}
static void vb_hostile_seekg(struct AbstractFile *p, int64_t off, int way)
{
    __CPROVER_assert(off > -((int64_t)1 << 40) && off < ((int64_t)1 << 40), "seek offset in range");
    int64_t t = p->g + off;
    p->asked += (uint64_t)off;
    if (t > p->fileSize) p->clamped = 1;   /* ghost: a skip ran into the declared end (the state stays as it is) */
    p->g = t < p->fileSize ? t : p->fileSize;
    __CPROVER_assert(p->p <= p->g && p->g <= p->fileSize, "stream invariant object start <= tellg <= declared end");
    __CPROVER_assume(p->p <= p->g && p->g <= p->fileSize);
}
#define AbstractFile_v_read(p, s, n) vb_hostile_read(p, s, n)
#define AbstractFile_v_seekg(p, off, way) vb_hostile_seekg(p, off, way)
#define AbstractFile_v_eof(p) (((p)->rdstate & IOS_eofbit) != 0)
#define AbstractFile_v_good(p) ((p)->rdstate == IOS_goodbit)
#define AbstractFile_v_gcount(p) ((p)->gcount)
#define AbstractFile_v_tellg(p) (((p)->rdstate & (IOS_failbit | IOS_badbit)) ? -1 : (p)->g)
#endif
