/* ObjectHeaderBase::read used through its contract (harness route).  The contract is proved on the real body,
 * with a loop contract on the signature resynchronisation loop, by the C09 check:
 *   requires  stream invariant, no pending exception
 *   assigns   the five base header fields, the stream's read state, vb_exc
 *   ensures   vb_exc == 0  or  (library exception and eof set);   good and no exception ==> signature == LOBJ;
 *             old(tellg) <= tellg <= declared end;   not good ==> tellg == declared end */
#ifndef OHB_READ_STUB_H
#define OHB_READ_STUB_H
void ObjectHeaderBase_read(struct ObjectHeaderBase *self, struct AbstractFile *is)
{
    __CPROVER_assert(__CPROVER_w_ok(self, sizeof(*self)) && is->g >= 0 && is->g <= is->fileSize && vb_exc == 0,
                     "ObjectHeaderBase::read precondition");
    int64_t g0 = is->g;
    uint32_t sig; uint16_t hs, hv; uint32_t os, ot; int64_t g, gc; int rs; int ex;
    self->signature = sig; self->headerSize = hs; self->headerVersion = hv; self->objectSize = os; self->objectType = ot;
    is->g = g; is->gcount = gc; is->rdstate = rs; vb_exc = ex;
    __CPROVER_assume(vb_exc == 0 || (vb_exc == VB_EXC_BLF && (is->rdstate & IOS_eofbit) != 0));
    __CPROVER_assume(!(vb_exc == 0 && is->rdstate == IOS_goodbit) || self->signature == VBC_ObjectSignature);
    __CPROVER_assume(is->g >= g0 && is->g <= is->fileSize && is->p <= is->g);
    __CPROVER_assume(is->rdstate == IOS_goodbit || is->g == is->fileSize);    /* a cut-short header read has consumed the stream to its declared end (C09) */
    if (is->rdstate != IOS_goodbit) is->hdr_end = 1;
    else { extern int64_t g_hdr_skip; __CPROVER_assume(is->g >= g0 + 16); g_hdr_skip = is->g - g0 - 16; is->asked = 16; is->p = is->g; /* the stream invariant p <= g, re-established by every later operation, now carries 'at least the base header was consumed' */ }   /* good: filler + the 16-byte base header (C09) */    /* ghost: the header read was cut short */
}
#endif
