#ifndef AF_SEG_IMPL_H
#define AF_SEG_IMPL_H
static void vb_seg_write_const(struct AbstractFile *f, const char *s, int64_t n)
{
    __CPROVER_assert(n >= 0 && n <= VB_SEG_BYTES && f->nseg < VB_SEG_MAX, "harness bound: segment capacity");
    for (int64_t i = 0; i < n; i++) vb_segdata[f->nseg][i] = (uint8_t)s[i];
    vb_seglen[f->nseg] = n; f->nseg++; f->p += n;
}
static void vb_seg_write_sym(struct AbstractFile *f, const char *s, int64_t n)
{
    __CPROVER_assert(n >= 0 && n <= VB_SEG_BYTES && f->nseg < VB_SEG_MAX, "harness bound: segment capacity");
    for (int64_t i = 0; i < n; i++) vb_segdata[f->nseg][i] = (uint8_t)s[i];
    vb_seglen[f->nseg] = n; f->nseg++; f->p += n;
}
/* returns the number of bytes to deliver (iostream law), flags set */
static int64_t vb_seg_read_prep(struct AbstractFile *f, int64_t n)
{
    if (n + f->g > f->fileSize) { n = f->fileSize - f->g; f->rdstate = IOS_eofbit | IOS_failbit; }
    else if (n > 0) f->rdstate = IOS_goodbit;
    if (n < 0) n = 0;
    return n;
}
static void vb_seg_read_const(struct AbstractFile *f, char *s, int64_t n)
{
    n = vb_seg_read_prep(f, n);
    f->gcount = n; f->g += n;
    if (f->rseg >= f->nseg) { if (n != 0) f->misaligned = 1; return; }
    if (n != vb_seglen[f->rseg]) { f->misaligned = 1; return; }
    for (int64_t i = 0; i < n; i++) s[i] = (char)vb_segdata[f->rseg][i];
    f->rseg++;
}
static void vb_seg_read_sym(struct AbstractFile *f, char *s, int64_t n)
{
    n = vb_seg_read_prep(f, n);
    f->gcount = n; f->g += n;
    if (f->rseg >= f->nseg) { if (n != 0) f->misaligned = 1; return; }
    if (n != vb_seglen[f->rseg]) { f->misaligned = 1; return; }
    for (int64_t i = 0; i < n; i++) s[i] = (char)vb_segdata[f->rseg][i];
    f->rseg++;
}
static void vb_seg_seekg(struct AbstractFile *f, int64_t off, int way)
{
    int64_t t = f->g + off;
    int64_t ng = t < f->fileSize ? t : f->fileSize;
    int64_t d = ng - f->g;
    f->g = ng;
    /* a forward seek must skip exactly the next pending write (e.g. the padding written by skipp) */
    if (f->rseg < f->nseg && d == vb_seglen[f->rseg]) f->rseg++;
    else if (d != 0) f->misaligned = 1;
}
static int64_t vb_seg_tellg(struct AbstractFile *f) { return (f->rdstate & (IOS_failbit | IOS_badbit)) ? -1 : f->g; }
static int64_t vb_seg_tellp(struct AbstractFile *f) { return (f->rdstate & (IOS_failbit | IOS_badbit)) ? -1 : f->p; }
#define AbstractFile_v_write(f, s, n) (__builtin_constant_p(n) ? vb_seg_write_const(f, s, n) : vb_seg_write_sym(f, s, n))
#define AbstractFile_v_read(f, s, n) (__builtin_constant_p(n) ? vb_seg_read_const(f, s, n) : vb_seg_read_sym(f, s, n))
#define AbstractFile_v_seekg(f, off, way) vb_seg_seekg(f, off, way)
#define AbstractFile_v_tellg(f) vb_seg_tellg(f)
#define AbstractFile_v_tellp(f) vb_seg_tellp(f)
#define AbstractFile_v_good(f) ((f)->rdstate == IOS_goodbit)
#define AbstractFile_v_eof(f) (((f)->rdstate & IOS_eofbit) != 0)
#define AbstractFile_v_gcount(f) ((f)->gcount)
#endif
