/* Contracts of everything File.cpp calls, as executable stubs (harness route): each stub asserts the callee's
 * precondition and then behaves as ANY implementation satisfying the callee's postcondition (nondeterministic
 * within the contract).  The contracts are the ones proved on the real callees by C15 (UncompressedFile),
 * C16 (ObjectQueue), C03/C10/C01 (the uniform codec contract behind the virtual read/write/calculateObjectSize),
 * C17 (createObject) and C09 (ObjectHeaderBase::read); std::fstream (CompressedFile), zlib and std::thread are
 * assumed contracts.  File.cpp's functions are then verified one by one against their own contracts. */
#ifndef FILE_STUBS_H
#define FILE_STUBS_H

/* ---------------- ghost accounting (reset by the harness) */
struct File *vb_file;
int g_drop_calls, g_push_calls, g_delete_calls, g_writeLC_calls, g_next_calls, g_encode_calls;
int g_compress_calls, g_compress_method, g_compress_level, g_lcwrite_calls, g_lcdtor;
int g_lcread_calls, g_hdr_bad;
int g_eos_queue, g_eos_stream, g_stats_written, g_seekp_calls, g_closed, g_abort_q, g_abort_u;
uint32_t g_eos_queue_arg; int64_t g_eos_stream_arg, g_seekp_arg;
struct ObjectHeaderBase *g_pushed, *g_deleted, *g_created, *g_dequeued;
uint32_t g_lc_usize; size_t g_lc_vecsize; int64_t g_read_req; uint32_t g_pushed_type, g_encoded_type;
int64_t g_sig_pos;           /* position of the signature ObjectHeaderBase::read accepted */
uint32_t vb_last_osize;      /* objectSize it decoded */
int64_t g_obj_end;           /* get position right after the codec's read() */
struct FileStatistics g_stats_at_write;

static int vb_nondet_int(void) { int x; return x; }
static int64_t vb_nondet_i64(void) { int64_t x; return x; }
static uint32_t vb_nondet_u32(void) { uint32_t x; return x; }

/* ---------------- UncompressedFile (contracts of C15, abstract positions only) */
_Bool UncompressedFile_good(struct UncompressedFile *u) { return u->m_rdstate == IOS_goodbit; }
_Bool UncompressedFile_eof(struct UncompressedFile *u) { return (u->m_rdstate & IOS_eofbit) != 0; }
int64_t UncompressedFile_gcount(struct UncompressedFile *u) { return u->m_gcount; }
int64_t UncompressedFile_tellg(struct UncompressedFile *u) { return (u->m_rdstate & (IOS_failbit | IOS_badbit)) ? -1 : u->m_tellg; }
int64_t UncompressedFile_tellp(struct UncompressedFile *u) { return (u->m_rdstate & (IOS_failbit | IOS_badbit)) ? -1 : u->m_tellp; }
uint32_t UncompressedFile_defaultLogContainerSize(struct UncompressedFile *u) { return u->m_defaultLogContainerSize; }
void UncompressedFile_setDefaultLogContainerSize(struct UncompressedFile *u, uint32_t c) { u->m_defaultLogContainerSize = c; }
void UncompressedFile_setBufferSize(struct UncompressedFile *u, int64_t n) { u->m_bufferSize = n; }
void UncompressedFile_seekg(struct UncompressedFile *u, int64_t off, int way)
{
    __CPROVER_assert(off >= -((int64_t)1 << 60) && off <= ((int64_t)1 << 60), "UncompressedFile::seekg precondition: offset in range");
    int64_t t = u->m_tellg + off;
    u->m_tellg = t < u->m_fileSize ? t : u->m_fileSize;
}
void UncompressedFile_dropOldData(struct UncompressedFile *u) { g_drop_calls++; }
void UncompressedFile_nextLogContainer(struct UncompressedFile *u) { g_next_calls++; }
void UncompressedFile_abort(struct UncompressedFile *u) { u->m_abort = 1; g_abort_u++; }
void UncompressedFile_setFileSize(struct UncompressedFile *u, int64_t n) { u->m_fileSize = n; g_eos_stream++; g_eos_stream_arg = n; }
void UncompressedFile_read(struct UncompressedFile *u, char *s, int64_t n)
{
    __CPROVER_assert(n >= 0 && (n == 0 || __CPROVER_w_ok(s, n)), "UncompressedFile::read precondition: destination writable for n bytes");
    g_read_req = n;
    int64_t m = n;
    if (n + u->m_tellg > u->m_fileSize) { m = u->m_fileSize - u->m_tellg; u->m_rdstate = IOS_eofbit | IOS_failbit; }
    else if (n > 0) u->m_rdstate = IOS_goodbit;
    if (m < 0) m = 0;
    if (u->m_abort) { int64_t a = vb_nondet_i64(); __CPROVER_assume(a >= 0 && a <= m); m = a; }   /* aborted: whatever is buffered */
    if (m > 0) __CPROVER_havoc_slice(s, (size_t)m);
    u->m_gcount = m; u->m_tellg = u->m_tellg + m;
}
void UncompressedFile_write__std__shared_ptr_LogContainer(struct UncompressedFile *u, struct LogContainer *lc)
{
    __CPROVER_assert(lc != 0 && lc->uncompressedFile.size == (size_t)lc->uncompressedFileSize,
                     "UncompressedFile::write(container) precondition: the buffer holds exactly uncompressedFileSize bytes (representation invariant of C15)");
    g_writeLC_calls++; g_lc_usize = lc->uncompressedFileSize; g_lc_vecsize = lc->uncompressedFile.size;
    u->m_tellp = u->m_tellp + (int64_t)lc->uncompressedFileSize;
}

/* ---------------- ObjectQueue (contracts of C16) */
_Bool ObjectQueue_good(struct ObjectQueue *q) { return q->m_rdstate == IOS_goodbit; }
_Bool ObjectQueue_eof(struct ObjectQueue *q) { return (q->m_rdstate & IOS_eofbit) != 0; }
uint32_t ObjectQueue_tellp(struct ObjectQueue *q) { return q->m_tellp; }
void ObjectQueue_setFileSize(struct ObjectQueue *q, uint32_t n) { q->m_fileSize = n; g_eos_queue++; g_eos_queue_arg = n; }
void ObjectQueue_setBufferSize(struct ObjectQueue *q, uint32_t n) { q->m_bufferSize = n; }
void ObjectQueue_abort(struct ObjectQueue *q) { q->m_abort = 1; g_abort_q++; }
void ObjectQueue_write(struct ObjectQueue *q, struct ObjectHeaderBase *obj)
{
    /* ownership passes to the consumer, which may delete the object at once (C11): modelled by freeing it here,
       so that ANY later access by the producer is a use of a deallocated object */
    __CPROVER_assert(obj != 0, "ObjectQueue::write precondition: an object");
    g_push_calls++; g_pushed = obj; g_pushed_type = obj->objectType;
    q->m_tellp++;
    free(obj);
}
struct ObjectHeaderBase *ObjectQueue_read(struct ObjectQueue *q)
{
    if (vb_nondet_int()) { q->m_rdstate = IOS_eofbit | IOS_failbit; g_dequeued = 0; return 0; }
    struct ObjectHeaderBase *o = (struct ObjectHeaderBase *)malloc(sizeof(struct ObjectHeaderBase));
    __CPROVER_assume(o != 0);
    q->m_rdstate = IOS_goodbit; q->m_tellg++; g_dequeued = o;
    return o;           /* the caller owns it now */
}

/* ---------------- the uniform codec contract behind the virtual calls (C03 / C10 / C01) */
uint32_t ObjectHeaderBase_v_calculateObjectSize(struct ObjectHeaderBase *p) { return p->gh_calc; }
void ObjectHeaderBase_v_read(struct ObjectHeaderBase *p, struct AbstractFile *af)
{
    struct UncompressedFile *u = &vb_file->m_uncompressedFile;
    __CPROVER_assert(af == &u->b_AbstractFile && __CPROVER_w_ok(p, sizeof(*p)), "codec read precondition");
    /* C10 R2/R4: position never behind the object start nor past the declared end; exception only eof / allocation */
    int64_t g0 = u->m_tellg;
    int64_t g = vb_nondet_i64(); __CPROVER_assume(g >= u->m_tellg && g <= u->m_fileSize);
    u->m_tellg = g; g_obj_end = g;
    { uint32_t t = vb_nondet_u32(); p->objectType = t; uint32_t s = vb_nondet_u32(); p->objectSize = s; }
    int k = vb_nondet_int();
    if (k == 1) { u->m_rdstate = IOS_eofbit | IOS_failbit; }
    else if (k == 2) { u->m_rdstate = IOS_eofbit | IOS_failbit; vb_exc = VB_EXC_BLF; }
    else if (k == 3) { vb_exc = VB_EXC_STD; }
    else { u->m_rdstate = IOS_goodbit; __CPROVER_assume(g >= g0 + 16); }   /* C10 R5: a decode that ends good has consumed at least the 16-byte base header */
}
void ObjectHeaderBase_v_write(struct ObjectHeaderBase *p, struct AbstractFile *af)
{
    struct UncompressedFile *u = &vb_file->m_uncompressedFile;
    __CPROVER_assert(af == &u->b_AbstractFile && __CPROVER_r_ok(p, sizeof(*p)), "codec write precondition");
    g_encode_calls++; g_encoded_type = p->objectType;
    int64_t n = vb_nondet_i64(); __CPROVER_assume(n >= 16 && n <= ((int64_t)1 << 33));
    u->m_tellp = u->m_tellp + n;          /* C03: exactly objectSize (+ padding) bytes */
}
void ObjectHeaderBase_v_delete(struct ObjectHeaderBase *p)
{
    if (p == 0) return;
    g_delete_calls++; g_deleted = p;
    free(p);
}
struct ObjectHeaderBase *File_createObject(uint32_t type);

/* ---------------- ObjectHeaderBase::read through its contract (C09), on either stream */
void ObjectHeaderBase_read(struct ObjectHeaderBase *self, struct AbstractFile *is)
{
    struct UncompressedFile *u = &vb_file->m_uncompressedFile; struct CompressedFile *c = &vb_file->m_compressedFile;
    __CPROVER_assert(vb_exc == 0 && (is == &u->b_AbstractFile || is == &c->b_AbstractFile), "ObjectHeaderBase::read precondition");
    { uint16_t a = (uint16_t)vb_nondet_int(); self->headerSize = a; uint16_t b = (uint16_t)vb_nondet_int(); self->headerVersion = b;
      self->objectSize = vb_nondet_u32(); self->objectType = vb_nondet_u32(); vb_last_osize = self->objectSize; }
    int k = vb_nondet_int();
    if (is == &u->b_AbstractFile) {
        if (k == 0) {
            int64_t g = vb_nondet_i64(); __CPROVER_assume(g >= u->m_tellg + 16 && g <= u->m_fileSize);
            u->m_tellg = g; g_sig_pos = g - 16; u->m_rdstate = IOS_goodbit; self->signature = VBC_ObjectSignature;
        } else {
            u->m_tellg = u->m_fileSize; u->m_rdstate = IOS_eofbit | IOS_failbit;      /* cut short: consumed to the declared end (C09) */
            if (k == 1) vb_exc = VB_EXC_BLF;
        }
    } else {
        if (k == 0) { c->cg = c->cg + 16 + (int64_t)(vb_nondet_u32() & 0xffff); c->cstate = IOS_goodbit; self->signature = VBC_ObjectSignature; }
        else { c->cstate = IOS_eofbit | IOS_failbit; g_hdr_bad = 1; if (k == 1) vb_exc = VB_EXC_BLF; }
    }
}
uint16_t ObjectHeaderBase_calculateHeaderSize(struct ObjectHeaderBase *self) { return 16; }
void ObjectHeaderBase_ctor(struct ObjectHeaderBase *self, uint16_t hv, uint32_t ot)
{ self->signature = VBC_ObjectSignature; self->headerSize = 0; self->headerVersion = hv; self->objectSize = 0; self->objectType = ot; }

/* ---------------- CompressedFile = a mutex around std::fstream (assumed) */
_Bool CompressedFile_good(struct CompressedFile *c) { return c->cstate == IOS_goodbit; }
_Bool CompressedFile_eof(struct CompressedFile *c) { return (c->cstate & IOS_eofbit) != 0; }
_Bool CompressedFile_is_open(struct CompressedFile *c) { return c->copen; }
void CompressedFile_open(struct CompressedFile *c, char *name, int mode) { c->copen = (vb_nondet_int() != 0); c->cg = 0; c->cp = 0; c->cstate = 0; c->cmode = mode; }
void CompressedFile_close(struct CompressedFile *c) { c->copen = 0; g_closed++; }
int64_t CompressedFile_tellp(struct CompressedFile *c) { return c->cp; }
void CompressedFile_seekp(struct CompressedFile *c, int64_t pos) { c->cp = pos; g_seekp_calls++; g_seekp_arg = pos; }
void CompressedFile_seekg(struct CompressedFile *c, int64_t off, int way) { c->cg = c->cg + off; }

/* ---------------- LogContainer (its real bodies are proved against these contracts by the C04 obligations) */
void LogContainer_ctor(struct LogContainer *lc)
{
    lc->b_ObjectHeaderBase.objectType = ObjectType_LOG_CONTAINER; lc->b_ObjectHeaderBase.headerVersion = 1;
    lc->compressionMethod = 0; lc->uncompressedFileSize = 0; lc->compressedFileSize = 0; lc->filePosition = 0;
    lc->compressedFile.data = 0; lc->compressedFile.size = 0; lc->uncompressedFile.data = 0; lc->uncompressedFile.size = 0;
    lc->reservedLogContainer1 = 0; lc->reservedLogContainer2 = 0; lc->reservedLogContainer3 = 0;
}
void LogContainer_dtor(struct LogContainer *lc) { g_lcdtor++; }
struct LogContainer *LogContainer_new(void)
{
    struct LogContainer *p = (struct LogContainer *)malloc(sizeof(struct LogContainer)); __CPROVER_assume(p != 0);
    LogContainer_ctor(p); return p;
}
uint16_t LogContainer_internalHeaderSize(struct LogContainer *lc) { return 32; }
void LogContainer_read(struct LogContainer *lc, struct AbstractFile *af)
{
    struct CompressedFile *c = &vb_file->m_compressedFile;
    __CPROVER_assert(af == &c->b_AbstractFile, "LogContainer::read precondition");
    g_lcread_calls++;
    lc->compressionMethod = (uint16_t)vb_nondet_int(); lc->uncompressedFileSize = vb_nondet_u32();
    lc->compressedFileSize = vb_nondet_u32(); lc->compressedFile.size = lc->compressedFileSize;
    lc->b_ObjectHeaderBase.objectSize = vb_nondet_u32();
    int k = vb_nondet_int();
    { int64_t adv = (int64_t)(vb_nondet_u32()); if (k == 0) { __CPROVER_assume(adv >= 16); } c->cg = c->cg + adv; }   /* C10 R5: a decode that ends good consumed at least the base header; never moves backwards (R4) */
    if (k == 0) c->cstate = IOS_goodbit;                       /* whole container available */
    else if (k == 1) c->cstate = IOS_eofbit | IOS_failbit;     /* cut short */
    else if (k == 2) { c->cstate = IOS_eofbit | IOS_failbit; vb_exc = VB_EXC_BLF; }
    else vb_exc = VB_EXC_STD;                                  /* absurd declared size */
}
void LogContainer_uncompress(struct LogContainer *lc)
{
    /* contract proved on the real body (C04/C10 obligations of LogContainer::uncompress with the assumed zlib contract):
       method 0: payload copied as is; method 2: success implies exactly uncompressedFileSize bytes; anything else throws */
    if (lc->compressionMethod == 0) {
        if (vb_nondet_int()) { vb_exc = VB_EXC_STD; return; }
        lc->uncompressedFile.size = lc->compressedFile.size;
        if (lc->uncompressedFile.size != (size_t)lc->uncompressedFileSize) vb_exc = VB_EXC_BLF;
    }
    else if (lc->compressionMethod == 2) {
        int k = vb_nondet_int();
        if (k == 0) lc->uncompressedFile.size = (size_t)lc->uncompressedFileSize;
        else if (k == 1) vb_exc = VB_EXC_BLF; else vb_exc = VB_EXC_STD;
    } else vb_exc = VB_EXC_BLF;
}
void LogContainer_compress(struct LogContainer *lc, uint16_t method, int level)
{
    g_compress_calls++; g_compress_method = method; g_compress_level = level;
    lc->compressionMethod = method;
    int k = vb_nondet_int();
    if (k == 1) { vb_exc = VB_EXC_BLF; return; }
    if (k == 2) { vb_exc = VB_EXC_STD; return; }
    if (method == 0) { lc->compressedFile.size = lc->uncompressedFile.size; lc->compressedFileSize = lc->uncompressedFileSize; }
    else { lc->compressedFileSize = vb_nondet_u32(); lc->compressedFile.size = lc->compressedFileSize; }
}
void LogContainer_write(struct LogContainer *lc, struct AbstractFile *af)
{
    struct CompressedFile *c = &vb_file->m_compressedFile;
    __CPROVER_assert(af == &c->b_AbstractFile, "LogContainer::write precondition");
    g_lcwrite_calls++; g_lc_usize = lc->uncompressedFileSize; g_lc_vecsize = lc->uncompressedFile.size;
    int64_t n = 32 + (int64_t)lc->compressedFile.size; n = n + (n % 4);
    c->cp = c->cp + n;
}
void vec_uint8_t_init(struct vec_uint8_t *v) { v->data = 0; v->size = 0; }
void vec_uint8_t_free(struct vec_uint8_t *v) { v->size = 0; }
void vec_uint8_t_resize(struct vec_uint8_t *v, size_t n)
{
    if (vb_nondet_int()) { vb_exc = VB_EXC_STD; return; }      /* allocation may fail */
    v->data = (uint8_t *)malloc(n ? n : 1); __CPROVER_assume(v->data != 0); v->size = n;
}
void vec_uint8_t_assign(struct vec_uint8_t *d, const struct vec_uint8_t *s) { d->size = s->size; }

/* ---------------- FileStatistics (real bodies: C04 byte-layout obligations) */
void FileStatistics_read(struct FileStatistics *st, struct AbstractFile *af)
{
    struct FileStatistics t; *st = t;
    if (vb_nondet_int()) vb_exc = VB_EXC_BLF;       /* signature mismatch */
}
void FileStatistics_write(struct FileStatistics *st, struct AbstractFile *af)
{
    g_stats_written++; g_stats_at_write = *st;
    vb_file->m_compressedFile.cp = vb_file->m_compressedFile.cp + 144;
}
uint32_t FileStatistics_calculateStatisticsSize(struct FileStatistics *st) { return 144; }
#endif
