/* AbstractFile, HOSTILE flavour: the interface contract of the pure-virtual read side with ARBITRARY content and an
 * arbitrary declared end (fileSize symbolic): every byte string and every truncation point at once.
 * read(s,n) demands a writable destination of n bytes (so a read length that is not the destination's size is a
 * named failure), delivers arbitrary bytes and follows the iostream law that C15 proves of UncompressedFile. */
#ifndef AF_HOSTILE_H
#define AF_HOSTILE_H
#include <stdint.h>
#define VB_GHOST_AbstractFile int64_t g; int64_t p; int64_t fileSize; int rdstate; int64_t gcount; int64_t hdr_end;
#define VB_MARK_HDR_END(os) ((void)0)
#define CONTRACT_AbstractFile_v_read \
    __CPROVER_requires(n >= 0 && (n == 0 || __CPROVER_w_ok(s, n))) \
    __CPROVER_requires(p->g >= 0 && p->g <= p->fileSize) \
    __CPROVER_assigns(p->g, p->rdstate, p->gcount, __CPROVER_object_upto(s, n)) \
    __CPROVER_ensures((__CPROVER_old(p->g) + n > p->fileSize) \
        ? (p->gcount == p->fileSize - __CPROVER_old(p->g) && p->rdstate == (IOS_eofbit | IOS_failbit)) \
        : (p->gcount == n && p->rdstate == IOS_goodbit)) \
    __CPROVER_ensures(p->g == __CPROVER_old(p->g) + p->gcount)
#define CONTRACT_AbstractFile_v_seekg \
    __CPROVER_requires(p->g >= 0 && p->g <= p->fileSize && off > -((int64_t)1 << 40) && off < ((int64_t)1 << 40)) \
    __CPROVER_assigns(p->g) \
    __CPROVER_ensures(p->g == ((__CPROVER_old(p->g) + off < p->fileSize) ? __CPROVER_old(p->g) + off : p->fileSize))
#define CONTRACT_AbstractFile_v_eof \
    __CPROVER_assigns() \
    __CPROVER_ensures(__CPROVER_return_value == ((p->rdstate & IOS_eofbit) != 0))
#define CONTRACT_AbstractFile_v_good \
    __CPROVER_assigns() \
    __CPROVER_ensures(__CPROVER_return_value == (p->rdstate == IOS_goodbit))
/* ObjectHeaderBase::read - proved against this contract (with a loop contract on the resynchronisation loop) in C09 */
#define CONTRACT_ObjectHeaderBase_read \
    __CPROVER_requires(__CPROVER_w_ok(self, sizeof(*self)) && __CPROVER_w_ok(is, sizeof(*is))) \
    __CPROVER_requires(is->g >= 0 && is->g <= is->fileSize && vb_exc == 0) \
    __CPROVER_assigns(self->signature, self->headerSize, self->headerVersion, self->objectSize, self->objectType, \
                      is->g, is->rdstate, is->gcount, vb_exc) \
    __CPROVER_ensures(vb_exc == 0 || (vb_exc == VB_EXC_BLF && (is->rdstate & IOS_eofbit) != 0)) \
    __CPROVER_ensures((vb_exc == 0 && is->rdstate == IOS_goodbit) ==> self->signature == VBC_ObjectSignature) \
    __CPROVER_ensures(is->g >= __CPROVER_old(is->g) && is->g <= is->fileSize)
#endif
