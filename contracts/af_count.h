/* AbstractFile, COUNT flavour: the interface contract of the pure-virtual stream
 * operations, used with --replace-call-with-contract.  Ghost state counts bytes;
 * content is not modelled.  Watch slots record how many bytes were emitted from
 * each caller container (one slot per container, addresses installed by the
 * enforced contract's requires clause).
 *
 * ASSUMED (interface has no body): write(s,n) consumes exactly n bytes starting at s
 * and advances the put position by n; it does not throw. */
#ifndef AF_COUNT_H
#define AF_COUNT_H
#include <stdint.h>
#ifndef VB_NSLOTS
#define VB_NSLOTS 6
#endif
struct vb_af_w { int64_t n0, n1, n2, n3, n4, n5; int64_t hit0, hit1, hit2, hit3, hit4, hit5; };
struct vb_af_sk { int64_t last_skip_n; int64_t last_skip_end; int64_t nskip; };
#define VB_GHOST_AbstractFile \
    int64_t g; int64_t p; int64_t fileSize; int rdstate; int64_t gcount; \
    int64_t hdr_end; struct vb_af_sk sk; struct vb_af_w w; \
    const char *w_ptr0; const char *w_ptr1; const char *w_ptr2; const char *w_ptr3; const char *w_ptr4; const char *w_ptr5;
#define VB_MARK_HDR_END(os) ((os)->hdr_end = (os)->p)

#define VB_SLOT_ENS(f, s, n, k) \
    __CPROVER_ensures(((const char *)(s) == (f)->w_ptr##k && (s) != 0) \
        ? ((f)->w.n##k == (n) && (f)->w.hit##k == __CPROVER_old((f)->w.hit##k) + 1) \
        : ((f)->w.n##k == __CPROVER_old((f)->w.n##k) && (f)->w.hit##k == __CPROVER_old((f)->w.hit##k)))

#define CONTRACT_AbstractFile_v_write \
    __CPROVER_requires(n >= 0 && (n == 0 || __CPROVER_r_ok(s, n))) \
    __CPROVER_assigns(p->p, p->w) \
    __CPROVER_ensures(p->p == __CPROVER_old(p->p) + n) \
    VB_SLOT_ENS(p, s, n, 0) VB_SLOT_ENS(p, s, n, 1) VB_SLOT_ENS(p, s, n, 2) \
    VB_SLOT_ENS(p, s, n, 3) VB_SLOT_ENS(p, s, n, 4) VB_SLOT_ENS(p, s, n, 5)

/* AbstractFile::skipp(n): proved against this contract on the real body in C14 */
#define CONTRACT_AbstractFile_skipp \
    __CPROVER_requires(s >= 0 && s <= 4096) \
    __CPROVER_assigns(self->p, self->sk) \
    __CPROVER_ensures(self->p == __CPROVER_old(self->p) + s && self->sk.last_skip_n == s && \
                      self->sk.last_skip_end == self->p && self->sk.nskip == __CPROVER_old(self->sk.nskip) + 1)
#define AF_COUNT_ASSIGNS(os) (os)->p, (os)->hdr_end, (os)->sk, (os)->w
#endif
