/* Ghost models of the std containers used by the stateful classes (proof builds).
 * Selected with -DVB_MODELS_CUSTOM before blf.h; replaces cxx2c/rt/vb_models.h.
 *
 * std::queue<T*>            : sequence numbers head_seq/tail_seq and the element stored at ONE arbitrary sequence
 *                             number VB_J (ghost index): FIFO facts are proved for arbitrary J without quantifiers.
 * std::list<shared_ptr<LC>> : array of at most VB_L held containers (bound on the number of containers held at once)
 * shared_ptr                : reference counting is not modelled (ownership assumption, listed in the evidence)
 * std::copy                 : VB_COPY(dst, first, last) - supplied by the harness (addressing checked, byte move assumed) */
#ifndef MODELS_GHOST_H
#define MODELS_GHOST_H
#include <stdint.h>
#include <stddef.h>
struct LogContainer; struct ObjectHeaderBase;
#ifndef VB_L
#define VB_L 4
#endif
struct vb_list_LogContainer_p { struct LogContainer *items[VB_L]; size_t head, tail; };
#define VB_INIT_list(l) ((l)->head = 0, (l)->tail = 0)
#define VB_DTOR_list(l) ((void)0)
#define VB_LIST_EMPTY(l) ((l).head == (l).tail)
#define VB_LIST_SIZE(l) ((size_t)((l).tail - (l).head))
#define VB_LIST_FRONT(l) ((l).items[(l).head])
#define VB_LIST_BACK(l) ((l).items[(l).tail - 1])
#define VB_LIST_AT(l, i) ((l).items[i])
#define VB_LIST_BEGIN(l) ((l).head)
#define VB_LIST_END(l) ((l).tail)
extern int vb_list_overflow;
#define VB_LIST_PUSH_BACK(l, x) do { if ((l).tail < VB_L) { (l).items[(l).tail] = (x); (l).tail++; } else vb_list_overflow = 1; } while (0)
#define VB_LIST_POP_FRONT(l) ((l).head++)
#define VB_SPTR_ADOPT(p) (p)
#define VB_SPTR_COPY(p) (p)
#define VB_SPTR_RELEASE(p) ((void)0)
#define VB_SPTR_SET(lhs, rhs) ((lhs) = (rhs))

struct vb_queue { uint64_t head_seq, tail_seq; struct ObjectHeaderBase *at_J; };
extern uint64_t VB_J;                        /* the arbitrary sequence number under observation */
struct ObjectHeaderBase *vb_nondet_obj(void);
#define VB_INIT_queue(q) ((q)->head_seq = 0, (q)->tail_seq = 0, (q)->at_J = 0)
#define VB_DTOR_queue(q) ((void)0)
#define VB_QUEUE_EMPTY(q) ((q).head_seq == (q).tail_seq)
#define VB_QUEUE_SIZE(q) ((size_t)((q).tail_seq - (q).head_seq))
#define VB_QUEUE_FRONT(q) ((q).head_seq == VB_J ? (q).at_J : vb_nondet_obj())
#define VB_QUEUE_POP(q) ((q).head_seq++)
#define VB_QUEUE_PUSH(q, x) do { if ((q).tail_seq == VB_J) (q).at_J = (x); (q).tail_seq++; } while (0)
#endif
