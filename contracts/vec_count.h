/* std::vector / std::string, COUNT model: sizes exact, contents nondeterministic.
 * resize(n) may fail (length_error / bad_alloc) for any n above a symbolic cap;
 * new elements are not tracked (count-level properties do not read contents). */
#ifndef VEC_COUNT_H
#define VEC_COUNT_H
size_t vb_alloc_cap;
#define VB_DEFINE_VEC(NAME, T) \
    void NAME##_init(struct NAME *v) { v->data = 0; v->size = 0; } \
    void NAME##_free(struct NAME *v) { if (v->data) free(v->data); v->data = 0; v->size = 0; } \
    void NAME##_resize(struct NAME *v, size_t n) { \
        if (n > vb_alloc_cap / sizeof(T)) { vb_exc = VB_EXC_STD; return; } \
        if (n == v->size) return; \
        T *p = (T *)malloc(n * sizeof(T)); \
        __CPROVER_assume(p != 0); \
        if (v->data) free(v->data); \
        v->data = p; v->size = n; } \
    void NAME##_assign(struct NAME *dst, const struct NAME *src) { \
        if (dst == src) return; \
        NAME##_resize(dst, src->size); }
#include "vb_vecs.inc"
#endif
