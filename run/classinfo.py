"""Navigation helpers over build/gen/classes.json (the class table produced by cxx2c)
and the committed oracles in spec/."""
import json, os, re
from . import core

SIZES = {'_Bool': 1, 'char': 1, 'uint8_t': 1, 'int8_t': 1, 'uint16_t': 2, 'int16_t': 2, 'uint32_t': 4, 'int32_t': 4,
         'int': 4, 'unsigned': 4, 'uint64_t': 8, 'int64_t': 8, 'double': 8, 'float': 4, 'size_t': 8}
MAXV = {'uint8_t': 0xff, 'uint16_t': 0xffff, 'uint32_t': 0x0fffffff, 'uint64_t': 0x0fffffff, 'int': 0x0fffffff}


class Info:
    def __init__(self, meta):
        self.meta = meta
        self.classes = meta['classes']
        self.spec_len = json.load(open(os.path.join(core.VERIF, 'spec', 'length_fields.json')))
        self.spec_pad = json.load(open(os.path.join(core.VERIF, 'spec', 'padding_types.json')))
        self.spec_types = json.load(open(os.path.join(core.VERIF, 'spec', 'type_table.json')))
        self.spec_derived = json.load(open(os.path.join(core.VERIF, 'spec', 'derived_members.json')))
        self.check_spec()

    # ---- oracles ---------------------------------------------------------
    def check_spec(self):
        """dangling keys in the oracles are reported as inconclusive, never silently ignored"""
        for cn, lst in self.spec_len['classes'].items():
            if cn not in self.classes:
                raise core.Inconclusive('spec/length_fields.json names class %s which is not in the class table' % cn)
            names = {m['name']: m for m in self.classes[cn]['members'] if m['owner'] == cn}
            for e in lst:
                for k in ('field', 'container'):
                    if e[k] not in names:
                        raise core.Inconclusive('spec/length_fields.json: %s.%s is not a member' % (cn, e[k]))
                if names[e['container']]['kind'] != 'vec':
                    raise core.Inconclusive('spec/length_fields.json: %s.%s is not a container' % (cn, e['container']))
        for kind in ('recomputed_on_write', 'not_serialised', 'shape_selectors'):
            for cn, names in self.spec_derived.get(kind, {}).items():
                if cn not in self.classes:
                    raise core.Inconclusive('spec/derived_members.json names class %s which is not in the class table' % cn)
                have = {m['name'] for m in self.classes[cn]['members'] if m['owner'] == cn}
                for n in names:
                    if n not in have:
                        raise core.Inconclusive('spec/derived_members.json: %s.%s is not a member' % (cn, n))
        for code, ent in self.spec_types['codes'].items():
            if ent['cls'] not in self.classes:
                raise core.Inconclusive('spec/type_table.json names class %s which is not in the class table' % ent['cls'])

    def derived(self, kind, owner, name):
        return name in self.spec_derived.get(kind, {}).get(owner, [])

    def class_codes(self, cn):
        return sorted(int(c) for c, e in self.spec_types['codes'].items() if e['cls'] == cn)

    def pads(self, cn):
        codes = self.class_codes(cn)
        padded = set(self.spec_pad['padded'])
        return bool(codes) and all(c in padded for c in codes)

    # ---- structure -------------------------------------------------------
    def derives(self, cn, base):
        return cn == base or base in self.classes[cn]['all_bases']

    def is_object(self, cn):
        return self.derives(cn, 'ObjectHeaderBase')

    def codec_classes(self):
        """instantiable classes with a write method that take an AbstractFile"""
        out = []
        for cn, c in self.classes.items():
            if c['abstract']: continue
            if 'write' in c['vtable'] and 'read' in c['vtable'] and cn not in ('UncompressedFile', 'CompressedFile', 'File', 'ObjectQueue'):
                out.append(cn)
        return out

    def leaves(self, cn, prefix='', via_nested=False):
        """flattened data members: dict(path, kind, ctype, elem, count, owner, name, nested)
           nested: reached through a class-typed member or a non-header base (conditionally serialised)"""
        out = []
        c = self.classes[cn]
        for m in c['members']:
            path = prefix + m['path']
            nested = via_nested or self._via_side_base(cn, m)
            if m['kind'] == 'class' and m['type']['ptr'] == 0:
                sub = m['type']['name']
                out += self.leaves(sub, path + '.', True)
            else:
                d = dict(m); d['path'] = path; d['nested'] = nested
                out.append(d)
        return out

    def _via_side_base(self, cn, m):
        """member inherited through a base that is not on the ObjectHeaderBase chain"""
        if m['owner'] == cn: return False
        if not self.is_object(cn): return False
        return not self.derives(m['owner'], 'ObjectHeaderBase') and not self.is_object(m['owner']) \
            if m['owner'] in self.classes else False

    def ohb(self, cn):
        """C path from struct cn to its ObjectHeaderBase sub-object"""
        for m in self.classes[cn]['members']:
            if m['owner'] == 'ObjectHeaderBase' and m['name'] == 'objectSize':
                return m['path'][:-len('.objectSize')] if '.' in m['path'] else ''
        return None

    def call(self, cn, method, selfexpr='self'):
        """C call expression of cn's final overrider of method on the object selfexpr (struct cn *)"""
        v = self.classes[cn]['vtable'].get(method)
        if v is None: return None
        s = selfexpr if not v['self'] else '(&(%s)->%s)' % (selfexpr, v['self'])
        return '%s(%s)' % (v['fn'], s)

    def length_field(self, leaf):
        """spec entry for a container leaf -> (field path, field ctype, byte_counted) or None"""
        ents = self.spec_len['classes'].get(leaf['owner'], [])
        for e in ents:
            if e['container'] == leaf['name']:
                prefix = leaf['path'][:-len(leaf['name'])]
                fpath = prefix + e['field']
                fm = [m for m in self.classes[leaf['owner']]['members'] if m['name'] == e['field'] and m['owner'] == leaf['owner']][0]
                bc = bool(self.spec_len.get('byte_counted_fields', {}).get('%s.%s' % (leaf['owner'], e['field'])))
                return (fpath, fm['ctype'], bc)
        return None

    def length_field_of(self, leaf):
        """is this scalar leaf the length/count field of some container (spec/length_fields.json)?"""
        for e in self.spec_len['classes'].get(leaf['owner'], []):
            if e['field'] == leaf['name']: return True
        return False

    def deps(self, cn, seen=None):
        """generated .c files needed for class cn (transitively over called functions)"""
        seen = seen if seen is not None else set()
        fm = self.meta['functions']
        todo = list(self.classes[cn]['functions'])
        owners = set()
        done = set()
        while todo:
            f = todo.pop()
            if f in done: continue
            done.add(f)
            meta = fm.get(f)
            if meta is None: continue
            owners.add(meta['owner'])
            for c in meta.get('calls', []):
                if c in fm and c not in done: todo.append(c)
        return sorted(owners)


def calls_closure(info, fn):
    fm = info.meta['functions']
    seen = set(); todo = [fn]
    while todo:
        f = todo.pop()
        if f in seen: continue
        seen.add(f)
        for c in (fm.get(f) or {}).get('calls', []):
            todo.append(c)
    return seen


def cid(path):
    return re.sub(r'[^A-Za-z0-9_]', '_', path.replace('.', '__'))
