"""Shared machinery of all checks: extraction, CBMC pipelines, obligation bookkeeping,
known findings, evidence, exit codes.

exit 0  every obligation discharged (known findings printed as KNOWN-FINDING lines)
exit 1  a baseline obligation failed        -> VIOLATION property=<id> replay=<path>[ no-failing-input-found]
exit 2  inconclusive (extraction rule did not fire, tool crash, timeout, vacuity guard) - never a violation
"""
import os, sys, json, time, hashlib, subprocess, re, shutil, resource, concurrent.futures

VERIF = os.path.dirname(os.path.dirname(os.path.abspath(__file__)))
REPO = os.environ.get('VERIF_REPO', '/repo')
SRC = os.path.join(REPO, 'src', 'Vector', 'BLF')
BUILD = os.path.join(VERIF, 'build')
GEN = os.path.join(BUILD, 'gen')
CONTRACTS = os.path.join(VERIF, 'contracts')
REPLAYS = os.path.join(VERIF, 'replays')
EVIDENCE = os.path.join(VERIF, 'evidence')
NCPU = int(os.environ.get('VERIF_JOBS', os.cpu_count() or 4))

CBMC_FLAGS = ['--bounds-check', '--pointer-check', '--pointer-primitive-check', '--signed-overflow-check',
              '--object-bits', '12']

sys.path.insert(0, VERIF)


class Inconclusive(Exception):
    pass


def tier():
    t = os.environ.get('VERIF_TIER', 'quick')
    for a in sys.argv[1:]:
        if a == '--thorough' or a == 'thorough': t = 'thorough'
        if a == '--quick' or a == 'quick': t = 'quick'
    return t if t in ('quick', 'thorough') else 'quick'


def seed():
    try:
        return int(os.environ.get('VERIF_SEED', '0'))
    except ValueError:
        return 0


def src_hash():
    h = hashlib.sha256()
    for fn in sorted(os.listdir(SRC)):
        if fn.endswith('.h') or fn.endswith('.cpp'):
            h.update(fn.encode())
            h.update(open(os.path.join(SRC, fn), 'rb').read())
    for root, _, files in os.walk(os.path.join(VERIF, 'cxx2c')):
        for fn in sorted(files):
            if fn.endswith('.py') or fn.endswith('.h') or fn.endswith('.c'):
                h.update(open(os.path.join(root, fn), 'rb').read())
    return h.hexdigest()


def ensure_extracted():
    """run cxx2c on /repo's current working tree (cached by content hash of sources + extractor)"""
    from cxx2c import main as cx
    from cxx2c import parser as cxp, emit as cxe, lexer as cxl
    os.makedirs(BUILD, exist_ok=True)
    h = src_hash()
    stamp = os.path.join(GEN, '.hash')
    if os.path.exists(stamp) and open(stamp).read() == h and os.path.exists(os.path.join(GEN, 'classes.json')):
        return json.load(open(os.path.join(GEN, 'classes.json')))
    tmp = GEN + '.tmp%d' % os.getpid()
    shutil.rmtree(tmp, ignore_errors=True)
    try:
        cx.extract(SRC, tmp)
    except (cxp.ParseError, cxe.EmitError, cxl.LexError) as e:
        shutil.rmtree(tmp, ignore_errors=True)
        raise Inconclusive('extraction failed (a must-fire rule of cxx2c did not fire): %s' % e)
    open(os.path.join(tmp, '.hash'), 'w').write(h)
    shutil.rmtree(GEN, ignore_errors=True)
    os.rename(tmp, GEN)
    return json.load(open(os.path.join(GEN, 'classes.json')))


# --------------------------------------------------------------------------- jobs

class Job:
    """one verification pipeline: goto-cc | goto-instrument | cbmc

    labels: dict mapping a CBMC property id (or regex) to the obligation label used in reports.
    route:  'dfcc' (contract enforced by goto-instrument --dfcc) | 'harness' (explicit assume/assert harness)
    """
    def __init__(self, name, source, entry='harness', enforce=None, replace=(), loop_contracts=False,
                 route='dfcc', unwind=None, unwindset=(), flags=None, timeout=300, labels=None,
                 expect_kinds=(), bounded=None, functions=(), defines=(), canary=True, mem_gb=8, extra_cbmc=(),
                 nondet_static=False, canary_ids=()):
        self.name = name; self.source = source; self.entry = entry; self.enforce = enforce
        self.replace = list(replace); self.loop_contracts = loop_contracts; self.route = route
        self.unwind = unwind; self.unwindset = list(unwindset); self.flags = flags; self.timeout = timeout
        self.labels = labels or {}; self.expect_kinds = list(expect_kinds); self.bounded = bounded
        self.functions = list(functions); self.defines = list(defines); self.canary = canary
        self.mem_gb = mem_gb; self.extra_cbmc = list(extra_cbmc); self.nondet_static = nondet_static
        self.canary_ids = list(canary_ids)   # properties that MUST fail (reachability / satisfiable preconditions)


class Result:
    def __init__(self, job):
        self.job = job; self.status = None  # 'ok' | 'failed' | 'inconclusive'
        self.props = []      # (cbmc_id, description, status)
        self.failed = []     # (cbmc_id, description)
        self.reason = ''; self.seconds = 0.0; self.solver_seconds = 0.0; self.output = ''
        self.workdir = ''; self.cmds = []; self.canaries = []


def _limit(mem_gb):
    def f():
        lim = int(mem_gb * (1 << 30))
        resource.setrlimit(resource.RLIMIT_AS, (lim, lim))
    return f


def _run(cmd, cwd, timeout, mem_gb):
    t0 = time.time()
    try:
        p = subprocess.run(cmd, cwd=cwd, stdout=subprocess.PIPE, stderr=subprocess.STDOUT, timeout=timeout,
                           preexec_fn=_limit(mem_gb), text=True, errors='replace')
        return p.returncode, p.stdout, time.time() - t0
    except subprocess.TimeoutExpired as e:
        out = e.stdout or ''
        if isinstance(out, bytes): out = out.decode(errors='replace')
        return -9, out + '\nTIMEOUT after %ss' % timeout, time.time() - t0


PROP_RE = re.compile(r'^\[([^\]]+)\] (?:line (\d+) )?(.*): (SUCCESS|FAILURE|UNKNOWN|ERROR)$')


def run_job(job, keep=True, trace=False):
    r = Result(job)
    wd = os.path.join(BUILD, 'jobs', re.sub(r'[^A-Za-z0-9_.-]', '_', job.name))
    shutil.rmtree(wd, ignore_errors=True)
    os.makedirs(wd)
    r.workdir = wd
    open(os.path.join(wd, 'h.c'), 'w').write(job.source)
    t0 = time.time()
    cc = ['goto-cc', '-DVBLF_CPROVER', '-I', GEN, '-I', CONTRACTS, '-I', wd] + ['-D' + d for d in job.defines] + \
         ['h.c', '--function', job.entry, '-o', 'a.gb']
    r.cmds.append(' '.join(cc))
    rc, out, _ = _run(cc, wd, 120, job.mem_gb)
    if rc != 0:
        r.status = 'inconclusive'; r.reason = 'goto-cc failed'; r.output = out; r.seconds = time.time() - t0
        return r
    cur = 'a.gb'
    if job.unwindset and job.route == 'harness' and job.loop_contracts:
        gi = ['goto-instrument'] + sum([['--unwindset', u] for u in job.unwindset], []) + [cur, 'u.gb']
        r.cmds.append(' '.join(gi))
        rc, out, _ = _run(gi, wd, 120, job.mem_gb)
        if rc != 0:
            r.status = 'inconclusive'; r.reason = 'goto-instrument --unwindset failed'; r.output = out
            r.seconds = time.time() - t0; return r
        cur = 'u.gb'
    if job.route == 'dfcc':
        gi = ['goto-instrument', '--dfcc', job.entry]
        if job.enforce: gi += ['--enforce-contract', job.enforce]
        for f in job.replace: gi += ['--replace-call-with-contract', f]
        if job.loop_contracts: gi += ['--apply-loop-contracts']
        gi += [cur, 'b.gb']
        r.cmds.append(' '.join(gi))
        rc, out, _ = _run(gi, wd, 300, job.mem_gb)
        if rc != 0:
            r.status = 'inconclusive'; r.reason = 'goto-instrument --dfcc failed'; r.output = out
            r.seconds = time.time() - t0; return r
        cur = 'b.gb'
    elif job.loop_contracts:
        gi = ['goto-instrument', '--apply-loop-contracts', cur, 'b.gb']
        r.cmds.append(' '.join(gi))
        rc, out, _ = _run(gi, wd, 300, job.mem_gb)
        if rc != 0:
            r.status = 'inconclusive'; r.reason = 'goto-instrument --apply-loop-contracts failed'; r.output = out
            r.seconds = time.time() - t0; return r
        cur = 'b.gb'
    flags = list(job.flags if job.flags is not None else CBMC_FLAGS)
    cb = ['cbmc'] + flags + list(job.extra_cbmc)
    if job.unwind is not None:
        cb += ['--unwind', str(job.unwind), '--unwinding-assertions']
    if job.unwindset and not (job.route == 'harness' and job.loop_contracts):
        cb += ['--unwindset', ','.join(job.unwindset)] + ([] if job.unwind is not None else ['--unwinding-assertions'])
    if trace: cb += ['--trace']
    cb += [cur]
    r.cmds.append(' '.join(cb))
    rc, out, secs = _run(cb, wd, job.timeout, job.mem_gb)
    r.seconds = time.time() - t0
    r.output = out
    m = re.search(r'Runtime Solver: ([0-9.]+)s', out)
    ms = re.findall(r'Runtime decision procedure: ([0-9.]+)s', out)
    r.solver_seconds = sum(float(x) for x in ms)
    open(os.path.join(wd, 'cbmc.log'), 'w').write('\n'.join(r.cmds) + '\n' + out)
    for line in out.splitlines():
        mm = PROP_RE.match(line.strip())
        if mm:
            r.props.append((mm.group(1), mm.group(3), mm.group(4)))
    if rc == -9:
        r.status = 'inconclusive'; r.reason = 'cbmc timeout (%ds)' % job.timeout; return r
    if ('VERIFICATION SUCCESSFUL' in out and rc == 0) or ('VERIFICATION FAILED' in out and rc == 10):
        # vacuity guard (b): canary obligations must FAIL (preconditions satisfiable, post-state reachable)
        r.canaries = [(p, s) for (p, d, s) in r.props if p in job.canary_ids]
        vac = [p for (p, s) in r.canaries if s != 'FAILURE']
        if len(r.canaries) != len(job.canary_ids) or vac:
            r.status = 'inconclusive'
            r.reason = 'vacuity guard: canary obligation %s did not fail (contradictory preconditions or unreachable post-state)' % (vac or job.canary_ids)
            return r
        r.props = [(p, d, s) for (p, d, s) in r.props if p not in job.canary_ids]
        r.failed = [(p, d) for (p, d, s) in r.props if s == 'FAILURE']
        r.status = 'failed' if r.failed else 'ok'
    else:
        r.status = 'inconclusive'; r.reason = 'cbmc exit code %s without verdict' % rc
        return r
    if not r.props:
        r.status = 'inconclusive'; r.reason = 'vacuity guard: zero obligations generated'
        return r
    if 'ignoring forall' in out or 'ignoring exists' in out:
        r.status = 'inconclusive'; r.reason = 'quantifier ignored by the SAT back end'
        return r
    # vacuity guard (a): expected obligation kinds must be present
    ids = [p + ' ' + d for (p, d, s) in r.props]
    for kind in job.expect_kinds:
        if not any(re.search(kind, i) for i in ids):
            r.status = 'inconclusive'; r.reason = 'vacuity guard: no obligation matching %r was generated' % kind
            return r
    return r


def label_of(job, cbmc_id, desc):
    if re.match(r'^C\d\d/', desc or ''):
        return desc.split(' ')[0]
    for pat, lab in job.labels.items():
        if pat == cbmc_id or (pat.startswith('re:') and re.search(pat[3:], cbmc_id + ' ' + desc)):
            return lab
    return cbmc_id


def run_jobs(jobs, workers=None):
    workers = workers or NCPU
    results = []
    with concurrent.futures.ThreadPoolExecutor(max_workers=workers) as ex:
        # long single queries first, so that they overlap with the many short ones
        futs = {ex.submit(run_job, j): j for j in sorted(jobs, key=lambda j: -getattr(j, 'weight', 0))}
        for f in concurrent.futures.as_completed(futs):
            results.append(f.result())
    order = {j.name: i for i, j in enumerate(jobs)}
    results.sort(key=lambda r: order[r.job.name])
    return results


# --------------------------------------------------------------------------- trace extraction

def trace_inputs(job):
    """re-run a failed job with --trace; returns ({cbmc property id: {input name: value}}, output).
       CBMC prints one trace per failed property; the inputs (globals named in_*) are read per trace."""
    r = run_job(job, trace=True)
    per = {}
    cur = None
    for line in r.output.splitlines():
        m = re.match(r'^Trace for ([^:]+):', line)
        if m:
            cur = per.setdefault(m.group(1), {}); continue
        if cur is None: continue
        m = re.match(r'^\s*(in_[A-Za-z0-9_\[\]\.]+)=([^\s]+)', line)
        if m:
            cur[m.group(1)] = m.group(2)      # last assignment wins (the harness assigns each input once)
    return per, r.output


# --------------------------------------------------------------------------- known findings

def load_known():
    p = os.path.join(VERIF, 'known_findings.json')
    if not os.path.exists(p): return []
    return json.load(open(p)).get('findings', [])


# --------------------------------------------------------------------------- translation validation (cached per source hash)

def translation_validation(info):
    """native differential run of the extracted C against the real library (harness/tv_gen.py); cached by the
       content hash of the sources, the extractor and the byte-stream model"""
    from harness import tv_gen
    d = os.path.join(BUILD, 'tv'); os.makedirs(d, exist_ok=True)
    h = src_hash() + hashlib.sha256(open(os.path.join(VERIF, 'harness', 'tv_gen.py'), 'rb').read()).hexdigest()
    cache = os.path.join(d, 'result.json')
    if os.path.exists(cache):
        try:
            r = json.load(open(cache))
            if r.get('hash') == h: return r
        except ValueError:
            pass
    t0 = time.time()
    r = tv_gen.run(info, seed(), 4)
    r['hash'] = h; r['seconds'] = round(time.time() - t0, 1)
    json.dump(r, open(cache, 'w'), indent=1)
    return r


# --------------------------------------------------------------------------- evidence / reporting

class Report:
    def __init__(self, prop):
        self.prop = prop; self.t0 = time.time(); self.tier = tier(); self.seed = seed()
        self.obligations = []    # dict(label, cbmc_id, job, status, route, bounded)
        self.violations = []     # (label, replay)
        self.known = []          # text
        self.inconclusive = []   # text
        self.assumptions = []
        self.functions = set()
        self.bounded = []
        self.jobs = []
        self.notes = {}
        self.solver = {}
        self.known_excluded = 0
        if os.path.isdir(REPLAYS):
            for fn in os.listdir(REPLAYS):
                if fn.startswith(prop + '_'): os.remove(os.path.join(REPLAYS, fn))
        self.partial = any(not a.startswith('-') and a not in ('quick','thorough') for a in sys.argv[1:])

    def add_results(self, results, backend='cbmc default SAT (minisat2)'):
        for r in results:
            j = r.job
            self.jobs.append(dict(name=j.name, status=r.status, reason=r.reason, seconds=round(r.seconds, 2),
                                  solver_seconds=round(r.solver_seconds, 2), route=j.route, n_obligations=len(r.props),
                                  bounded=j.bounded, enforce=j.enforce, replaced=j.replace,
                                  canaries=[p for (p, s_) in r.canaries]))
            self.solver[backend] = self.solver.get(backend, 0.0) + r.solver_seconds
            for f in j.functions: self.functions.add(f)
            if j.bounded: self.bounded.append('%s: %s' % (j.name, j.bounded))
            if r.status == 'inconclusive':
                self.inconclusive.append('%s: %s' % (j.name, r.reason))
                continue
            for (pid, desc, st) in r.props:
                self.obligations.append(dict(label=label_of(j, pid, desc), cbmc_id=pid, job=j.name, status=st,
                                             desc=desc))

    def n_obl(self): return len(self.obligations)
    def n_ok(self): return sum(1 for o in self.obligations if o['status'] == 'SUCCESS')

    def write_replay(self, name, data):
        os.makedirs(REPLAYS, exist_ok=True)
        path = os.path.join(REPLAYS, re.sub(r'[^A-Za-z0-9_.-]', '_', name) + '.json')
        json.dump(data, open(path, 'w'), indent=1)
        return path

    def validate_translation(self, info):
        """keeps the verified text demonstrably the code that runs: extracted C vs real library, natively"""
        try:
            r = translation_validation(info)
        except Inconclusive as e:
            self.inconclusive.append('translation validation could not run: %s' % e); return
        self.notes['translation_validation'] = dict(programs=r['programs'], disagreements=len(r['disagreements']),
                                                     seconds=r.get('seconds'), samples=r['samples'][:2],
                                                     what='every reference object image decoded and re-encoded, and pseudo-random objects of every class encoded, by the natively compiled extracted C and by the real library: outputs compared line by line')
        for d_ in r['disagreements'][:5]:
            self.inconclusive.append('translation validation: extracted C and real library disagree on %s (extractor/model defect, not a property violation)' % d_['case'])

    def validate_stage_translation(self):
        """the extracted text of the two stage classes vs the real classes on sequential operation scripts (harness/tv_stage.py)"""
        from harness import tv_stage
        try:
            r = tv_stage.run()
        except Inconclusive as e:
            self.inconclusive.append('stage translation validation could not run: %s' % e); return
        if r['status'] == 'inconclusive':
            self.inconclusive.append('stage translation validation could not run: %s' % str(r.get('detail'))[:400]); return
        self.notes['translation_validation_stage_classes'] = dict(programs=r['programs'], operations=r['operations'], disagreements=r['disagreements'], what=r['what'])
        for d_ in (r.get('detail') or [])[:3]:
            self.inconclusive.append('stage translation validation: extracted C and real class disagree in script %s line %s: %s | %s (extractor/model defect, not a property violation)'
                                     % (d_['script'], d_['line'], d_['extracted'][:120], d_['real'][:120]))

    def finish(self, level, checker_cmd, trusted_base, samples=None, extra=None, explanation=None):
        os.makedirs(EVIDENCE, exist_ok=True)
        kinds = {'contract_clauses': 0, 'language_safety': 0, 'instrumentation_internal': 0}
        for o in self.obligations:
            cid_ = o['cbmc_id']
            if cid_.startswith('__CPROVER_contracts') or cid_.startswith('free.') or cid_.startswith('malloc.'):
                kinds['instrumentation_internal'] += 1
            elif re.search(r'\.(postcondition|precondition|assigns|loop_invariant_base|loop_invariant_step|loop_decreases|loop_assigns|assertion)\.', cid_ + '.'):
                kinds['contract_clauses'] += 1
            else:
                kinds['language_safety'] += 1
        cov = dict(obligations=self.n_obl(), discharged=self.n_ok(), checker_cmd=checker_cmd, obligation_kinds=kinds,
                   known_finding_obligations_not_counted=self.known_excluded,
                   canaries_failed_as_required=sum(len(j.get('canaries', [])) for j in self.jobs),
                   trusted_base=trusted_base,
                   samples=samples or [o['label'] + ' [' + o['cbmc_id'] + ']' for o in self.obligations[:12]],
                   functions_under_contract=sorted(self.functions),
                   bounded_items=self.bounded,
                   pipelines=len(self.jobs),
                   solver_seconds={k: round(v, 1) for k, v in self.solver.items()},
                   inconclusive=self.inconclusive,
                   known_findings=self.known,
                   jobs=self.jobs if len(self.jobs) <= 400 else self.jobs[:400])
        if explanation: cov['explanation'] = explanation
        if self.notes: cov.update(self.notes)
        if extra: cov.update(extra)
        ev = dict(property_id=self.prop, tier=self.tier, seed=self.seed, level=level, coverage=cov,
                  assumptions=self.assumptions, wall_s=round(time.time() - self.t0, 1),
                  violations=len(self.violations))
        json.dump(ev, open(os.path.join(EVIDENCE, self.prop + '.json'), 'w'), indent=1)
        for k in self.known:
            print('KNOWN-FINDING: property=%s %s' % (self.prop, k))
        for (label, replay, nofail) in self.violations:
            print('VIOLATION property=%s replay=%s%s' % (self.prop, replay, ' no-failing-input-found' if nofail else ''))
            print('  failed obligation: %s' % label)
        for t in self.inconclusive:
            print('INCONCLUSIVE: %s' % t)
        print('%s %s: %d obligations, %d discharged, %d violations, %d known findings, %d inconclusive, %.1fs' % (
            self.prop, self.tier, self.n_obl(), self.n_ok(), len(self.violations), len(self.known),
            len(self.inconclusive), time.time() - self.t0))
        if self.violations: return 1
        if self.inconclusive: return 2
        return 0


def main_wrapper(fn):
    try:
        sys.exit(fn())
    except Inconclusive as e:
        print('INCONCLUSIVE: %s' % e)
        sys.exit(2)


TRUSTED_BASE = [
    'CBMC 6.11.0 (goto-cc, goto-instrument --dfcc contract instrumentation, symbolic execution, MiniSat2 back end)',
    'cxx2c: mechanical C++-subset -> C extraction of /repo/src/Vector/BLF run on every check (rules in DESIGN.md section 4; cross-validated natively by the translation-validation checks: codecs/headers/containers on every reference object image, UncompressedFile and ObjectQueue on sequential operation scripts; the extracted text of File.cpp is not executed natively)',
    'cxx2c/rt/vb_rt.h, contracts/vec_*.h: models of std::vector/std::string/std::array (size exact; allocation fails only as an exception)',
    'assumed interface contract of the pure-virtual AbstractFile::read/write/seekg/tellg (contracts/af_*.h)',
    'x86-64 little-endian data layout, sizeof as on gcc 12',
]


def borrow(job, frm, to):
    """re-use an obligation set of property `frm` inside the check of property `to`: the callee contract that `to`'s
       argument rests on is discharged (and a change that breaks it reported) under `to` as well; labels become
       to/via-frm/..."""
    import copy
    j = copy.copy(job)
    j.name = ('%s_via%s_' % (to, frm)) + (job.name[len(frm) + 1:] if job.name.startswith(frm + '_') else job.name)
    j.source = job.source.replace('"%s/' % frm, '"%s/via-%s/' % (to, frm))
    j.labels = {k: ('%s/via-%s' % (to, v) if v.startswith(frm + '/') else v) for k, v in (job.labels or {}).items()}
    return j


def keep_property(results, prop):
    """shared jobs carry obligations of several properties: keep this property's labels (and the unlabelled
       language-safety obligations); the others are reported by their own property's check"""
    for r in results:
        def mine(p, d):
            lab = label_of(r.job, p, d)
            return lab.startswith(prop + '/') or not re.match(r'^C\d\d/', lab)
        r.props = [(p, d, s) for (p, d, s) in r.props if mine(p, d)]
        r.failed = [(p, d) for (p, d) in r.failed if mine(p, d)]
        if r.status == 'failed' and not r.failed: r.status = 'ok'
    return results


def generic_label(prop, job, cbmc_id):
    m = re.match(r'^(.*?)\.(\d+)$', cbmc_id)
    base = m.group(1) if m else cbmc_id
    return '%s/%s/safety:%s' % (prop, job.name, base)


def load_baseline(prop):
    p = os.path.join(VERIF, 'baseline', prop + '.json')
    if not os.path.exists(p): return None
    return set(json.load(open(p))['labels'])


def save_baseline(prop, labels):
    os.makedirs(os.path.join(VERIF, 'baseline'), exist_ok=True)
    json.dump(dict(labels=sorted(labels)), open(os.path.join(VERIF, 'baseline', prop + '.json'), 'w'), indent=0)


def triage(rep, results, info=None, replayer=None):
    """turn failed obligations into VIOLATION / KNOWN-FINDING / INCONCLUSIVE entries.

    A failed obligation is a VIOLATION when its label is part of the committed baseline (it is discharged on the
    unchanged tree) - the counterexample inputs are extracted from a --trace re-run and, where a native replayer
    exists for the job, replayed against the real library; a replay that does NOT reproduce the deviation turns
    the report into INCONCLUSIVE (checker and real code disagree) instead of a violation."""
    prop = rep.prop
    base = load_baseline(prop)
    known = [k for k in load_known() if k.get('property') == prop and k.get('status', 'open') == 'open']
    update = '--update-baseline' in sys.argv
    all_labels = set()
    for r in results:
        if r.status == 'inconclusive': continue
        for (pid, desc, st) in r.props:
            lab = label_of(r.job, pid, desc)
            if lab == pid: lab = generic_label(prop, r.job, pid)
            all_labels.add(lab)
    if update:
        ok_labels = set()
        for r in results:
            if r.status == 'inconclusive': continue
            for (pid, desc, st) in r.props:
                lab = label_of(r.job, pid, desc)
                if lab == pid: lab = generic_label(prop, r.job, pid)
                if st == 'SUCCESS': ok_labels.add(lab)
        # a label is baseline only if every obligation carrying it succeeded
        bad = set()
        for r in results:
            for (pid, desc) in r.failed:
                lab = label_of(r.job, pid, desc)
                if lab == pid: lab = generic_label(prop, r.job, pid)
                bad.add(lab)
        newbase = ok_labels - bad
        if rep.partial and base is not None:
            newbase = (set(base) - all_labels) | newbase      # partial run: only the labels generated now are refreshed
        save_baseline(prop, newbase)
        base = newbase
    if base is not None:
        missing = [b for b in base if '/safety:' not in b and b not in all_labels and not any(
            b.startswith('%s/%s/' % (prop, r.job.name)) or ('/%s/' % r.job.name.split('_', 1)[-1]) in b
            for r in results if r.status == 'inconclusive')]
        if missing and not rep.partial:
            rep.inconclusive.append('vacuity guard: %d baseline obligations were not generated, e.g. %s' % (len(missing), sorted(missing)[:3]))
    # counterexample traces of all failed jobs, in parallel
    traces = {}
    failed_jobs = [r.job for r in results if r.status == 'failed']
    if failed_jobs:
        with concurrent.futures.ThreadPoolExecutor(max_workers=NCPU) as ex:
            futs = {ex.submit(trace_inputs, j): j for j in failed_jobs}
            for f in concurrent.futures.as_completed(futs):
                try:
                    traces[futs[f].name] = f.result()
                except Exception as e:
                    traces[futs[f].name] = ({}, 'trace error: %s' % e)
    for r in results:
        if r.status != 'failed': continue
        seen = set()
        for (pid, desc) in r.failed:
            lab = label_of(r.job, pid, desc)
            if lab == pid: lab = generic_label(prop, r.job, pid)
            if lab in seen: continue
            seen.add(lab)
            kf = [k for k in known if k.get('label') == lab and k.get('input_free')]
            if kf:
                # the obligation has no free input (e.g. the state of a default-constructed object): the label is the witness
                rep.known.append('%s - %s' % (lab, kf[0].get('what', '')))
                rep.obligations = [o for o in rep.obligations if not (o['job'] == r.job.name and o['label'] == lab)]
                rep.known_excluded += 1
                continue
            per, out = traces.get(r.job.name, ({}, r.output))
            vals = per.get(pid, {}) if isinstance(per, dict) else {}
            tail = '\n'.join([l for l in out.splitlines() if 'FAILURE' in l][:40])
            data = dict(property=prop, obligation=lab, cbmc_property=pid, description=desc, job=r.job.name,
                        pipeline=r.cmds, counterexample_inputs=vals, verifier_output_failed_lines=tail,
                        harness=os.path.join(r.workdir, 'h.c'))
            confirmed = None
            if replayer is not None:
                try:
                    confirmed, note = replayer(r.job, lab, vals, data)
                    data['native_replay'] = dict(confirmed=confirmed, note=note)
                except Exception as e:
                    data['native_replay'] = dict(confirmed=None, note='replay driver error: %s' % e)
            path = rep.write_replay('%s_%s' % (prop, lab.replace('/', '_')), data)
            if confirmed is False:
                rep.inconclusive.append('%s failed in the verifier but the native replay on the real library did not show the deviation (%s)' % (lab, path))
            elif confirmed is True:
                rep.violations.append((lab, path, False))
            elif base is not None and lab in base:
                rep.violations.append((lab, path, True))
            else:
                rep.inconclusive.append('%s failed and is not in the baseline of obligations discharged on the unchanged tree (%s)' % (lab, path))
